//go:build verif
// +build verif

package throttle

// Composition monitor: real MotionProcessor -> tap -> real ThrottledRecorder
// (fake clock, 1/fps per frame) -> scripted base sink. Serves the clauses of
// C04, C05, C06, C12 and C15 that only show when the throttle sits between the
// processor and storage while storage misbehaves:
//   C04  the disk check passes through the throttle (no start the base recorder's
//        CheckCanRecord would have refused);
//   C05  interval bound on the writes reaching the base recorder;
//   C06/C12  the base recorder sees paired start/write/stop calls whatever fails;
//   C15  every file the throttle (re)starts carries the background and threshold the
//        processor handed over at the trigger of the current recording.

import (
	"errors"
	"fmt"
	"os"
	"testing"
	"time"

	config "github.com/TheCacophonyProject/go-config"
	"github.com/TheCacophonyProject/go-cptv/cptvframe"
	"github.com/TheCacophonyProject/thermal-recorder/motion"
	"github.com/TheCacophonyProject/thermal-recorder/recorder"
	"github.com/TheCacophonyProject/window"
)

type tapOp struct {
	Frame  int
	Thresh uint16
	Bg     *cptvframe.Frame
	Err    bool
	// frames of budget in the bucket when the processor asked for the recording, and the id of
	// the first frame it then wrote (-1: none yet)
	Budget     int64
	FirstWrite int
}

// tapRecorder sits between the processor and the throttle and records what the
// processor asked for.
type tapRecorder struct {
	// embedded, so that whatever else the throttle offers to its caller (optional interfaces the
	// processor may look for) stays reachable through the tap as it is in main.go's wiring
	*ThrottledRecorder
	next   recorder.Recorder
	frame  *int
	starts []tapOp
	th     *ThrottledRecorder
}

func (t *tapRecorder) StopRecording() error { return t.next.StopRecording() }
func (t *tapRecorder) StartRecording(bg *cptvframe.Frame, th uint16) error {
	budget := int64(-1)
	if t.th != nil {
		budget = t.th.bucket.Available()
	}
	err := t.next.StartRecording(bg, th)
	t.starts = append(t.starts, tapOp{Frame: *t.frame, Thresh: th, Bg: bg, Err: err != nil, Budget: budget, FirstWrite: -1})
	return err
}
func (t *tapRecorder) WriteFrame(f *cptvframe.Frame) error {
	if n := len(t.starts); n > 0 && t.starts[n-1].FirstWrite < 0 {
		t.starts[n-1].FirstWrite = f.Status.FrameCount
	}
	return t.next.WriteFrame(f)
}
func (t *tapRecorder) CheckCanRecord() error { return t.next.CheckCanRecord() }

// scriptedBase: the storage layer with a disk check that fails during scripted
// frame windows and starts that fail at random.
type scriptedBase struct {
	baseSink
	frame     *int
	diskLow   func(frame int) bool
	opFrames  []int // frame index of every op in baseSink.ops
	checkSeen int
}

func (b *scriptedBase) CheckCanRecord() error {
	b.checkSeen++
	if b.diskLow != nil && b.diskLow(*b.frame) {
		return errors.New("scripted: not enough free disk space")
	}
	return nil
}
func (b *scriptedBase) StartRecording(bg *cptvframe.Frame, th uint16) error {
	err := b.baseSink.StartRecording(bg, th)
	b.opFrames = append(b.opFrames, *b.frame)
	return err
}
func (b *scriptedBase) WriteFrame(f *cptvframe.Frame) error {
	err := b.baseSink.WriteFrame(f)
	b.opFrames = append(b.opFrames, *b.frame)
	return err
}
func (b *scriptedBase) StopRecording() error {
	err := b.baseSink.StopRecording()
	b.opFrames = append(b.opFrames, *b.frame)
	return err
}

func TestVerif_ThrottleComposition(t *testing.T) {
	prop := os.Getenv("VERIF_PROP")
	switch prop {
	case "C01", "C02", "C04", "C05", "C06", "C12", "C15":
	default:
		prop = "C06"
	}
	c := vStart(t, prop, "TestVerif_ThrottleComposition")
	defer c.Finish()
	n := c.N(600, 40000)
	for idx := int64(0); idx < n; idx++ {
		if !c.Mine(idx) {
			continue
		}
		rng := c.RNG(idx)
		cfg := thConfig{BucketSecs: rng.PickInt(2, 3, 5), Refill: []time.Duration{time.Second, 2 * time.Second, 5 * time.Second}[rng.Intn(3)], FPS: rng.PickInt(3, 9)}
		minS, prevS := rng.Range(0, 2), rng.Range(0, 2)
		if minS+prevS == 0 {
			minS = 1
		}
		if cfg.BucketSecs < minS+prevS {
			cfg.BucketSecs = minS + prevS + 1
		}
		cfg.MinSecs = minS + prevS
		maxS := minS + rng.Range(0, 20)
		dynamic := rng.Chance(60)
		nframes := int(cfg.B()) * rng.Range(6, 25)
		pStartFail := rng.PickInt(0, 0, 10, 35)
		// disk-low windows (in frames)
		type win struct{ a, b int }
		var lows []win
		for k := rng.Intn(3); k > 0; k-- {
			a := rng.Intn(nframes)
			lows = append(lows, win{a, a + rng.Range(cfg.FPS, 6*cfg.FPS)})
		}
		fseed := rng.U64()
		pm := rng.PickInt(40, 90, 100)
		c.Case(idx, func() interface{} {
			return map[string]interface{}{"config": cfg.String(), "min": minS, "preview": prevS, "max": maxS, "frames": nframes, "dynamic_threshold": dynamic,
				"base_start_failure_pct": pStartFail, "disk_low_frame_windows": fmt.Sprint(lows), "motion_pct": pm}
		}, func() {
			r := newThRun(cfg)
			frame := 0
			base := &scriptedBase{frame: &frame}
			base.clock = r.clock
			base.diskLow = func(f int) bool {
				for _, w := range lows {
					if f >= w.a && f < w.b {
						return true
					}
				}
				return false
			}
			if pStartFail > 0 {
				base.startFail = func(n int) bool { return vMix(fseed^uint64(n))%100 < uint64(pStartFail) }
			}
			if idx%3 == 1 {
				// storage that reports a failure from every other stop (the file is closed all the same)
				base.stopFail = func(n int) bool { return vMix(fseed^0x57^uint64(n))%100 < 50 }
			}
			tc := &config.ThermalThrottler{Activate: true, BucketSize: time.Duration(cfg.BucketSecs) * time.Second, MinRefill: cfg.Refill}
			th := NewThrottledRecorderWithClock(base, tc, cfg.MinSecs, r.events, r.clock, tCam{6, 5, cfg.FPS})
			tap := &tapRecorder{ThrottledRecorder: th, next: th, frame: &frame, th: th}
			mc := &config.ThermalMotion{DynamicThreshold: dynamic, TempThresh: 2900, DeltaThresh: 10, CountThresh: 1, FrameCompareGap: 1, UseOneDiffOnly: true, TriggerFrames: rng.Range(1, 2), EdgePixels: 0}
			rc := &recorder.RecorderConfig{MinSecs: minS, MaxSecs: maxS, PreviewSecs: prevS, Window: window.Window{NoWindow: true}}
			cam := tCam{6, 5, cfg.FPS}
			mp := motion.NewMotionProcessor(nil, mc, rc, &config.Location{}, nil, tap, cam, nil, new(recorder.NoWriteRecorder))
			f := cptvframe.NewFrame(cam)
			level := uint16(6000)
			scene := 3000
			frng := vNewRNG(fseed, 3)
			for frame = 0; frame < nframes; frame++ {
				r.clock.now = r.clock.now.Add(time.Second / time.Duration(cfg.FPS))
				if frng.Chance(pm) {
					level = 14000 - level
				}
				if frame%7 == 6 {
					scene += frng.Range(-2, 6) // a slowly drifting scene moves the dynamic threshold
				}
				for y := range f.Pix {
					for x := range f.Pix[y] {
						f.Pix[y][x] = uint16(scene + frng.Intn(3))
					}
				}
				f.Pix[2][2] = level
				f.Status = cptvframe.Telemetry{TimeOn: time.Minute + time.Duration(frame)*time.Second, FrameCount: frame}
				mp.ProcessFrame(f)
			}
			// ---- oracles
			if p := pairingCheck(base.ops); p != "" && (prop == "C06" || prop == "C12") {
				c.Violation("base-calls-not-paired", "composition with faults", p)
				return
			}
			if prop == "C05" {
				if _, w := boundCheck(base.ops, cfg); w != "" {
					c.Violation("bucket-bound-exceeded", "composition with faults", w)
					return
				}
			}
			// C01: whatever the throttle does, a file handed to storage holds consecutive frames
			if prop == "C01" {
				prev, open := -1, false
				stored := map[int]int{} // frame -> number of the file that holds it
				nfile := 0
				for _, op := range base.ops {
					switch {
					case op.Op == 'S' && !op.Err:
						open, prev = true, -1
						nfile++
					case op.Op == 'P':
						open = false
					case op.Op == 'W' && open:
						if prev >= 0 && op.Seq != prev+1 {
							c.Violation("gap-or-disorder", "behind the throttle", fmt.Sprintf("a file handed to storage holds frame %d directly after frame %d", op.Seq, prev))
							return
						}
						prev = op.Seq
						// ... and no frame is handed to storage twice, whichever of the throttle's
						// suppressed, cut or resumed recordings it belongs to
						if f0, dup := stored[op.Seq]; dup && !op.Err {
							c.Violation("frame-written-twice", "behind the throttle", fmt.Sprintf("frame %d is written to file %d and again to file %d", op.Seq, f0, nfile))
							return
						}
						if !op.Err {
							stored[op.Seq] = nfile
						}
					}
				}
				c.Count("frames_stored_behind_the_throttle", int64(len(stored)))
			}
			// C02: when the budget covers a minimum recording the file opens with the processor's
			// first pre-trigger frame, on the frame of the trigger
			if prop == "C02" {
				for _, ts := range tap.starts {
					if ts.Err || ts.Budget < th.minRecordingLength || ts.FirstWrite < 0 {
						continue
					}
					first := -1
					for k, op := range base.ops {
						if base.opFrames[k] == ts.Frame && op.Op == 'W' && !op.Err {
							first = op.Seq
							break
						}
					}
					if first != ts.FirstWrite {
						c.Violation("wrong-first-frame", "behind the throttle", fmt.Sprintf("recording triggered at frame %d with %d frames of budget (a minimum recording needs %d): the processor's first pre-trigger frame is %d, the first frame stored on that frame is %d (-1: none)", ts.Frame, ts.Budget, th.minRecordingLength, ts.FirstWrite, first))
						return
					}
					c.Count("starts_within_budget_checked", 1)
				}
			}
			// C04: the processor may only believe a recording started when the disk check passed on that frame
			for _, s := range tap.starts {
				if base.diskLow(s.Frame) {
					if prop == "C04" {
						c.Violation("start-despite-failed-disk-check", "through the throttle", fmt.Sprintf("frame %d: the processor started a recording (StartRecording returned err=%v) although the storage layer's CheckCanRecord fails on that frame", s.Frame, s.Err))
						return
					}
				}
			}
			// C04/C15: every base start belongs to the processor's current recording
			ti := -1
			for k, op := range base.ops {
				if op.Op != 'S' {
					continue
				}
				fr := base.opFrames[k]
				for ti+1 < len(tap.starts) && tap.starts[ti+1].Frame <= fr {
					ti++
				}
				if ti < 0 {
					if prop == "C04" || prop == "C06" {
						c.Violation("file-started-without-a-trigger", "through the throttle", fmt.Sprintf("frame %d: the storage layer was asked to start a file before the processor ever started a recording", fr))
						return
					}
					continue
				}
				cur := tap.starts[ti]
				if prop == "C04" && base.diskLow(cur.Frame) {
					c.Violation("start-despite-failed-disk-check", "restart through the throttle", fmt.Sprintf("frame %d: a file was started for a recording triggered at frame %d, when the disk check failed", fr, cur.Frame))
					return
				}
				if prop == "C15" && (op.Thresh != cur.Thresh || op.Bg != cur.Bg || op.Bg == nil) {
					c.Violation("recording-stores-wrong-threshold", "file (re)started by the throttle", fmt.Sprintf("frame %d: the storage layer was started with threshold %d / background %p, the processor's recording (triggered at frame %d) carries threshold %d / background %p", fr, op.Thresh, op.Bg, cur.Frame, cur.Thresh, cur.Bg))
					return
				}
				c.Count("base_starts_checked", 1)
				if fr > cur.Frame {
					c.Count("mid_trigger_restarts", 1)
				}
			}
			nfail := 0
			for _, op := range base.ops {
				if op.Op == 'S' && op.Err {
					nfail++
				}
			}
			c.Count("composition_runs", 1)
			nsf := 0
			for _, op := range base.ops {
				if op.Op == 'P' && op.Err {
					nsf++
				}
			}
			c.Count("base_stop_failures", int64(nsf))
			c.Count("base_start_failures", int64(nfail))
			c.Count("processor_starts", int64(len(tap.starts)))
			c.Count("disk_checks", int64(base.checkSeen))
			c.Count("throttled_events", int64(r.events.n))
			if len(lows) > 0 {
				c.Count("runs_with_disk_low_windows", 1)
			}
			if r.events.n > 0 {
				c.Nontrivial(vNewHash().Str(cfg.String()).U64(uint64(idx)).Int(len(base.ops)).Int(r.events.n).Sum())
				c.Sample("composition", func() interface{} {
					return map[string]interface{}{"config": cfg.String(), "frames": nframes, "processor_starts": len(tap.starts), "base_ops": len(base.ops), "base_start_failures": nfail, "throttled_events": r.events.n}
				})
			}
		})
	}
}
