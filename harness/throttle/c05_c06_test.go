//go:build verif
// +build verif

package throttle

// C05 - throttling bounds recorded frames by the token bucket in every interval
//       (offline checker over the timestamped base-recorder trace).
// C06 - transparent within budget, clean cuts, restarts only with a full clip
//       (online per-operation monitor + pairing automaton + derived checks).

import (
	"errors"
	"fmt"
	"math/big"
	"os"
	"testing"
	"time"

	config "github.com/TheCacophonyProject/go-config"
	"github.com/TheCacophonyProject/go-cptv/cptvframe"
	"github.com/TheCacophonyProject/thermal-recorder/motion"
	"github.com/TheCacophonyProject/thermal-recorder/recorder"
	"github.com/TheCacophonyProject/window"
)

type tCam struct{ x, y, fps int }

func (c tCam) ResX() int { return c.x }
func (c tCam) ResY() int { return c.y }
func (c tCam) FPS() int  { return c.fps }

type fakeClock struct{ now time.Time }

func (c *fakeClock) Now() time.Time        { return c.now }
func (c *fakeClock) Sleep(d time.Duration) { c.now = c.now.Add(d) }

type thConfig struct {
	BucketSecs int
	// BucketExtraMS adds a fraction of a second to bucket-size (C05 only: the bound is then
	// floor(bucket-size*fps) frames; the C06 reference models whole seconds)
	BucketExtraMS int
	Refill        time.Duration
	MinSecs       int // min-secs + preview-secs as wired by main.go
	FPS           int
}

func (c thConfig) B() int64 {
	return (int64(c.BucketSecs)*1000 + int64(c.BucketExtraMS)) * int64(c.FPS) / 1000
}
func (c thConfig) bucketSize() time.Duration {
	return time.Duration(c.BucketSecs)*time.Second + time.Duration(c.BucketExtraMS)*time.Millisecond
}
func (c thConfig) minLen() int64 { return int64(c.MinSecs * c.FPS) }
func (c thConfig) rate() float64 { return float64(c.minLen()) / c.Refill.Seconds() }
func (c thConfig) String() string {
	return fmt.Sprintf("bucket=%v refill=%v min+preview=%ds fps=%d (B=%d frames, minLen=%d, rate=%.4g/s)", c.bucketSize(), c.Refill, c.MinSecs, c.FPS, c.B(), c.minLen(), c.rate())
}

type baseOp struct {
	Op     byte // S W P
	Seq    int
	T      time.Time
	Err    bool
	Thresh uint16
	Bg     *cptvframe.Frame
}

// baseSink is the wrapped recorder: records the timestamped trace, returns
// scripted start failures.
type baseSink struct {
	clock     *fakeClock
	ops       []baseOp
	startFail func(n int) bool
	starts    int
	writeFail func(n int) bool
	writes    int
	// stopFail: the file is closed all the same (as the file recorder does when its final rename
	// fails), the caller is told about the failure
	stopFail func(n int) bool
	stops    int
}

func (b *baseSink) StopRecording() error {
	n := b.stops
	b.stops++
	if b.stopFail != nil && b.stopFail(n) {
		b.ops = append(b.ops, baseOp{Op: 'P', T: b.clock.now, Err: true})
		return errors.New("injected stop failure")
	}
	b.ops = append(b.ops, baseOp{Op: 'P', T: b.clock.now})
	return nil
}
func (b *baseSink) StartRecording(bg *cptvframe.Frame, th uint16) error {
	n := b.starts
	b.starts++
	fail := b.startFail != nil && b.startFail(n)
	b.ops = append(b.ops, baseOp{Op: 'S', T: b.clock.now, Err: fail, Thresh: th, Bg: bg})
	if fail {
		return errors.New("injected start failure")
	}
	return nil
}
func (b *baseSink) WriteFrame(f *cptvframe.Frame) error {
	b.writes++
	if b.writeFail != nil && b.writeFail(b.writes) {
		// the frame did not reach storage (C05 counts frames that did)
		b.ops = append(b.ops, baseOp{Op: 'W', Seq: f.Status.FrameCount, T: b.clock.now, Err: true})
		return errors.New("injected write failure")
	}
	b.ops = append(b.ops, baseOp{Op: 'W', Seq: f.Status.FrameCount, T: b.clock.now})
	return nil
}
func (b *baseSink) CheckCanRecord() error { return nil }

type evCounter struct{ n int }

func (e *evCounter) WhenThrottled() { e.n++ }

// callerOp is one step of the caller schedule.
type callerOp struct {
	Op      byte          // S W P
	Advance time.Duration // clock advance before the op
}

func schedString(ops []callerOp, max int) string {
	b := []byte{}
	for i, o := range ops {
		if i >= max {
			b = append(b, []byte(fmt.Sprintf("…(%d more)", len(ops)-i))...)
			break
		}
		if o.Advance != 0 {
			b = append(b, []byte(fmt.Sprintf("+%v ", o.Advance))...)
		}
		b = append(b, o.Op, ' ')
	}
	return string(b)
}

// ---------------------------------------------------------------- C05 oracle

// boundCheck: for all i<=j over forwarded writes: j-i+1 <= B + 1.01*r*(tj-ti) + 2.
// O(n) running-minimum form. Returns the largest excess over B + 1.01 r dt
// and a witness if the tolerance of 2 is exceeded.
func boundCheck(ops []baseOp, cfg thConfig) (maxExcess float64, witness string) {
	r := cfg.rate() * 1.01
	var t0 time.Time
	first := true
	minG := 0.0
	minI := 0
	k := 0
	maxExcess = -1e18
	var times []time.Time
	for _, op := range ops {
		if op.Op != 'W' || op.Err {
			continue
		}
		if first {
			t0 = op.T
			first = false
		}
		times = append(times, op.T)
		g := float64(k) - r*op.T.Sub(t0).Seconds()
		if k == 0 || g < minG {
			// candidate for i (inclusive): use g(i) of this element
		}
		if k == 0 {
			minG, minI = g, 0
		}
		if g < minG {
			minG, minI = g, k
		}
		excess := g - minG + 1 - float64(cfg.B())
		if excess > maxExcess {
			maxExcess = excess
		}
		// float arithmetic only nominates candidates; the verdict is exact:
		// (n - B - 2) * 100 * refill_ns > 101 * minLen * dt_ns  in big integers
		if excess > 1.99 && witness == "" && exceedsExactly(int64(k-minI+1), op.T.Sub(times[minI]), cfg) {
			witness = fmt.Sprintf("%d frames forwarded between write #%d (t=+%v) and write #%d (t=+%v): allowed B=%d + 1.01*%.4g/s*%.3fs + 2 = %.2f",
				k-minI+1, minI, times[minI].Sub(t0), k, op.T.Sub(t0), cfg.B(), cfg.rate(), op.T.Sub(times[minI]).Seconds(), float64(cfg.B())+r*op.T.Sub(times[minI]).Seconds()+2)
		}
		k++
	}
	return
}

func exceedsExactly(n int64, dt time.Duration, cfg thConfig) bool {
	lhs := new(big.Int).Mul(big.NewInt(n-cfg.B()-2), big.NewInt(100))
	lhs.Mul(lhs, big.NewInt(int64(cfg.Refill)))
	rhs := new(big.Int).Mul(big.NewInt(101), big.NewInt(cfg.minLen()))
	rhs.Mul(rhs, big.NewInt(int64(dt)))
	return lhs.Cmp(rhs) > 0
}

// ---------------------------------------------------------------- driving

type thRun struct {
	cfg    thConfig
	clock  *fakeClock
	base   *baseSink
	events *evCounter
	th     *ThrottledRecorder
}

func newThRun(cfg thConfig) *thRun {
	r := &thRun{cfg: cfg, clock: &fakeClock{now: time.Date(2021, 1, 1, 0, 0, 0, 0, time.UTC)}, events: &evCounter{}}
	r.base = &baseSink{clock: r.clock}
	tc := &config.ThermalThrottler{Activate: true, BucketSize: cfg.bucketSize(), MinRefill: cfg.Refill}
	r.th = NewThrottledRecorderWithClock(r.base, tc, cfg.MinSecs, r.events, r.clock, tCam{4, 3, cfg.FPS})
	return r
}

var advChoices = []time.Duration{0, 0, 0, 1, time.Second / 9, time.Second / 9, time.Second / 3, time.Second, 7 * time.Second, time.Minute, time.Hour, 26 * time.Hour, 40 * 24 * time.Hour}

func thRandomConfig(rng *vRNG) thConfig {
	c := thConfig{BucketSecs: rng.PickInt(1, 2, 5, 10, 60), MinSecs: rng.PickInt(1, 2, 5, 15, 20), FPS: rng.PickInt(1, 2, 3, 9)}
	c.Refill = []time.Duration{time.Second, 2 * time.Second, 10 * time.Second, time.Minute, 10 * time.Minute, time.Hour, 1500 * time.Millisecond, 2500 * time.Millisecond, 19800 * time.Millisecond, 700 * time.Millisecond}[rng.Intn(10)]
	if rng.Chance(15) {
		c = thConfig{BucketSecs: 600, Refill: 10 * time.Minute, MinSecs: 15, FPS: 9} // shipped defaults
	}
	return c
}

// thSchedule generates a caller schedule from the grammar (Start Write* Stop)*.
func thSchedule(rng *vRNG, cfg thConfig, n int) []callerOp {
	ops := []callerOp{}
	shape := rng.Intn(5)
	frame := time.Second / time.Duration(cfg.FPS)
	tick := time.Duration(1e9 / cfg.rate())
	adv := func() time.Duration {
		switch rng.Intn(8) {
		case 0:
			return tick
		case 1:
			return tick - 1
		case 2:
			return tick + 1
		case 3:
			return advChoices[rng.Intn(len(advChoices))]
		default:
			return frame
		}
	}
	for len(ops) < n {
		idle := time.Duration(0)
		switch shape {
		case 0: // idle-then-burst
			idle = advChoices[rng.Intn(len(advChoices))]
		case 1: // churn at the refill boundary
			idle = tick*time.Duration(cfg.minLen()) + time.Duration(rng.Range(-2, 2))
		case 2:
			idle = frame
		default:
			idle = adv()
		}
		ops = append(ops, callerOp{'S', idle})
		var w int
		switch shape {
		case 2: // continuous writing for many buckets
			w = int(cfg.B())*rng.Range(1, 4) + rng.Range(0, 5)
		case 4: // alternating one-frame recordings
			w = 1
		default:
			w = rng.PickInt(0, 1, int(cfg.minLen()), int(cfg.minLen())+1, int(cfg.B()), int(cfg.B())+3, rng.Range(0, 3*int(cfg.B())))
		}
		if w > 4000 {
			w = 4000
		}
		for i := 0; i < w && len(ops) < n+50; i++ {
			a := frame
			if rng.Chance(5) {
				a = adv()
			}
			ops = append(ops, callerOp{'W', a})
		}
		ops = append(ops, callerOp{'P', rng.PickDur(0, frame)})
		if rng.Chance(10) {
			shape = rng.Intn(5)
		}
	}
	return ops
}

func (r *vRNG) PickDur(ds ...time.Duration) time.Duration { return ds[r.Intn(len(ds))] }

// ---------------------------------------------------------------- C06 oracle (online)

type c06Monitor struct {
	open         bool  // base recording open (from the base trace)
	callerRec    bool  // caller believes it is recording
	writesInFile int64 // forwarded writes in the current base file
	suppressed   int
	cuts         int
	viol         *vio
	bg           *cptvframe.Frame
	thresh       uint16
}

type vio struct{ kind, class, detail string }

func (m *c06Monitor) fail(kind, class, detail string) {
	if m.viol == nil {
		m.viol = &vio{kind, class, detail}
	}
}

// apply runs one caller op on the real throttle and judges what it forwarded.
func (m *c06Monitor) apply(r *thRun, i int, op callerOp, frame *cptvframe.Frame, bg *cptvframe.Frame, thresh uint16) {
	r.clock.now = r.clock.now.Add(op.Advance)
	A := r.th.bucket.Available()
	minLen := r.cfg.minLen()
	nb, ne := len(r.base.ops), r.events.n
	var err error
	switch op.Op {
	case 'S':
		err = r.th.StartRecording(bg, thresh)
	case 'W':
		err = r.th.WriteFrame(frame)
	case 'P':
		err = r.th.StopRecording()
	}
	fw := r.base.ops[nb:]
	ev := r.events.n - ne
	desc := func() string {
		b := []byte{}
		for _, o := range fw {
			b = append(b, o.Op)
			if o.Err {
				b = append(b, '!')
			}
		}
		return fmt.Sprintf("caller op #%d %c with %d tokens available (minLen %d, base open=%v): forwarded [%s], %d event(s), returned err=%v", i, op.Op, A, minLen, m.open, string(b), ev, err)
	}
	switch op.Op {
	case 'S':
		m.bg, m.thresh = bg, thresh
		if A >= minLen {
			if len(fw) != 1 || fw[0].Op != 'S' {
				m.fail("start-not-forwarded", "budget sufficient", desc())
				return
			}
			if fw[0].Bg != bg || fw[0].Thresh != thresh {
				m.fail("start-arguments-changed", "", desc())
				return
			}
			if fw[0].Err {
				if err == nil {
					m.fail("start-error-swallowed", "wrapped start failed", desc())
					return
				}
				if ev != 0 {
					m.fail("event-on-failed-start", "wrapped start failed", desc())
					return
				}
				if after := r.th.bucket.Available(); after < A {
					m.fail("failed-start-took-tokens", "wrapped start failed", fmt.Sprintf("%s; %d tokens left after the refused start", desc(), after))
					return
				}
				m.callerRec = false
				return
			}
			if err != nil || ev != 0 {
				m.fail("start-within-budget-not-transparent", "budget sufficient", desc())
				return
			}
			m.open, m.writesInFile, m.callerRec = true, 0, true
		} else {
			if len(fw) != 0 {
				m.fail("start-forwarded-without-budget", "budget insufficient", desc())
				return
			}
			if ev != 1 {
				m.fail("suppressed-start-event-count", "budget insufficient", desc())
				return
			}
			if err != nil {
				m.fail("suppressed-start-returned-error", "budget insufficient", desc())
				return
			}
			m.suppressed++
			m.callerRec = true
		}
	case 'W':
		if m.open {
			if A >= 1 {
				if len(fw) != 1 || fw[0].Op != 'W' || fw[0].Seq != frame.Status.FrameCount || ev != 0 || err != nil {
					m.fail("write-within-budget-not-transparent", "open", desc())
					return
				}
				m.writesInFile++
			} else {
				if len(fw) != 1 || fw[0].Op != 'P' {
					m.fail("cut-not-clean", "budget exhausted", desc())
					return
				}
				if ev != 1 {
					m.fail("cut-event-count", "budget exhausted", desc())
					return
				}
				if m.writesInFile < minLen {
					m.fail("cut-file-shorter-than-minimum", "budget exhausted", fmt.Sprintf("%s; the cut file holds %d frames < minimum %d", desc(), m.writesInFile, minLen))
					return
				}
				m.open = false
				m.cuts++
			}
		} else {
			if A >= minLen {
				if len(fw) >= 1 && fw[0].Op == 'S' && fw[0].Err {
					if err == nil {
						m.fail("start-error-swallowed", "restart failed", desc())
					}
					if len(fw) != 1 || ev != 0 {
						m.fail("failed-restart-side-effects", "restart failed", desc())
					}
					// nothing was stored, so nothing was spent: the budget earned for the restart is still there
					if after := r.th.bucket.Available(); after < A {
						m.fail("failed-restart-took-tokens", "restart failed", fmt.Sprintf("%s; %d tokens left after the refused restart", desc(), after))
					}
					return
				}
				if len(fw) != 2 || fw[0].Op != 'S' || fw[1].Op != 'W' || fw[1].Seq != frame.Status.FrameCount {
					m.fail("restart-missing", "budget regained", desc())
					return
				}
				if fw[0].Bg != m.bg || fw[0].Thresh != m.thresh {
					m.fail("restart-arguments-changed", "budget regained", desc())
					return
				}
				if ev != 0 || err != nil {
					m.fail("restart-not-transparent", "budget regained", desc())
					return
				}
				m.open, m.writesInFile = true, 1
			} else {
				if len(fw) != 0 {
					m.fail("restart-without-full-clip-budget", "suppressed", desc())
					return
				}
				if ev != 0 {
					m.fail("event-per-suppressed-frame", "suppressed", desc())
					return
				}
				if err != nil {
					m.fail("suppressed-write-returned-error", "suppressed", desc())
					return
				}
			}
		}
	case 'P':
		if m.open {
			if len(fw) != 1 || fw[0].Op != 'P' || ev != 0 || err != nil {
				m.fail("stop-not-forwarded", "open", desc())
				return
			}
		} else if len(fw) != 0 || ev != 0 || err != nil {
			m.fail("stop-forwarded-while-closed", "closed", desc())
			return
		}
		m.open, m.callerRec = false, false
	}
}

// pairing automaton over the whole base trace
func pairingCheck(ops []baseOp) string {
	open := false
	for i, o := range ops {
		switch o.Op {
		case 'S':
			if open {
				return fmt.Sprintf("base op #%d: start while open", i)
			}
			if !o.Err {
				open = true
			}
		case 'W':
			if !open {
				return fmt.Sprintf("base op #%d: write while closed", i)
			}
		case 'P':
			if !open {
				return fmt.Sprintf("base op #%d: stop while closed", i)
			}
			open = false
		}
	}
	return ""
}

// thWriteFail, when set (C05 runs only), makes the wrapped recorder's writes fail.
var thWriteFail func(n int) bool

func runSchedule(c *vCtx, prop string, cfg thConfig, ops []callerOp, startFail func(int) bool, label string) {
	r := newThRun(cfg)
	r.base.startFail = startFail
	if prop == "C05" {
		r.base.writeFail = thWriteFail
	}
	m := &c06Monitor{}
	frame := cptvframe.NewFrame(tCam{4, 3, cfg.FPS})
	bg := cptvframe.NewFrame(tCam{4, 3, cfg.FPS})
	callerRec := false
	seq := 0
	for i, op := range ops {
		// a caller whose start failed does not write (as MotionProcessor behaves)
		if op.Op == 'W' && !callerRec {
			r.clock.now = r.clock.now.Add(op.Advance)
			continue
		}
		if op.Op == 'P' && !callerRec {
			r.clock.now = r.clock.now.Add(op.Advance)
			continue
		}
		frame.Status.FrameCount = seq
		seq++
		th := uint16(3000 + i%7)
		m.apply(r, i, op, frame, bg, th)
		callerRec = m.callerRec
		if m.viol != nil && r.base.writeFail == nil && cfg.BucketExtraMS == 0 {
			break
		}
	}
	if prop == "C06" {
		if m.viol != nil {
			c.Violation(m.viol.kind, m.viol.class, m.viol.detail)
			return
		}
		if p := pairingCheck(r.base.ops); p != "" {
			c.Violation("base-calls-not-paired", "", p)
			return
		}
		if r.events.n != m.suppressed+m.cuts {
			c.Violation("event-count", "", fmt.Sprintf("%d throttled events for %d suppressed starts + %d cuts", r.events.n, m.suppressed, m.cuts))
			return
		}
	} else {
		maxEx, w := boundCheck(r.base.ops, cfg)
		if w != "" {
			c.Violation("bucket-bound-exceeded", label, w)
			return
		}
		if maxEx > -1e17 {
			c.Max("max:excess_over_bound_x1000", int64(maxEx*1000))
		}
	}
	nw := 0
	for _, o := range r.base.ops {
		if o.Op == 'W' {
			nw++
		}
	}
	c.Count("forwarded_writes", int64(nw))
	c.Count("cuts", int64(m.cuts))
	c.Count("suppressed_starts", int64(m.suppressed))
	c.Count("throttled_events", int64(r.events.n))
	c.Count("schedules", 1)
	if m.cuts+m.suppressed > 0 {
		h := vNewHash().Str(cfg.String())
		for _, o := range r.base.ops {
			h.Int(int(o.Op)).U64(uint64(o.T.UnixNano()))
		}
		c.Nontrivial(h.Sum())
		c.Sample(label, func() interface{} {
			return map[string]interface{}{"config": cfg.String(), "schedule": schedString(ops, 40), "forwarded_writes": nw, "cuts": m.cuts, "suppressed_starts": m.suppressed}
		})
	}
}

func TestVerif_Throttle(t *testing.T) {
	prop := os.Getenv("VERIF_PROP")
	if prop != "C05" && prop != "C06" {
		prop = "C06"
	}
	c := vStart(t, prop, "TestVerif_Throttle")
	defer c.Finish()
	idx := int64(0)
	// Part 1: random schedules, with wrapped-start failures for C06
	n := c.N(20000, 4000000)
	for s := int64(0); s < n; s++ {
		myIdx := idx
		idx++
		if !c.Mine(myIdx) {
			continue
		}
		rng := c.RNG(myIdx)
		cfg := thRandomConfig(rng)
		if prop == "C05" && myIdx%5 == 3 {
			// a bucket-size that is not a whole number of seconds, also on fast cameras
			cfg.BucketSecs, cfg.BucketExtraMS = 1+int(myIdx%2), []int{500, 100, 900}[myIdx%3]
			cfg.FPS = []int{9, 27, 60, 3}[myIdx%4]
		}
		nops := rng.Range(5, 600)
		if rng.Chance(3) {
			nops = 6000
		}
		ops := thSchedule(rng, cfg, nops)
		var sf func(int) bool
		pf := rng.PickInt(0, 0, 10, 40)
		fseed := rng.U64()
		if pf > 0 {
			sf = func(n int) bool { return vMix(fseed^uint64(n))%100 < uint64(pf) }
		}
		c.Case(myIdx, func() interface{} {
			return map[string]interface{}{"config": cfg.String(), "schedule": schedString(ops, 200), "wrapped_start_failure_pct": pf}
		}, func() {
			if prop == "C05" && myIdx%4 == 1 {
				// the storage behind the throttle loses writes: tokens spent on them are gone
				wp := uint64(10 + myIdx%3*20)
				thWriteFail = func(n int) bool { return vMix(fseed^0x5eed^uint64(n))%100 < wp }
				c.Count("schedules_with_write_failures", 1)
			}
			runSchedule(c, prop, cfg, ops, sf, "random-schedule")
			thWriteFail = nil
			if cfg.BucketExtraMS > 0 {
				c.Count("schedules_with_fractional_bucket_size", 1)
			}
			if pf > 0 {
				c.Count("schedules_with_start_failures", 1)
			}
		})
	}
	// Part 1b: budgets of more than 2^31 (and 2^32) frames - a bucket-size of years on a fast
	// camera. Nothing is cut or suppressed while a tiny part of such a budget is used, on any
	// word size; the products of seconds and fps are chosen to land just above a power of two.
	for k, hc := range []thConfig{
		{BucketSecs: 71582789, Refill: time.Hour, MinSecs: 2, FPS: 60},   // 4294967340 frames = 2^32 + 44
		{BucketSecs: 35791395, Refill: time.Hour, MinSecs: 2, FPS: 60},   // 2147483700 frames = 2^31 + 52
		{BucketSecs: 477218589, Refill: time.Hour, MinSecs: 2, FPS: 9},   // 4294967301 frames = 2^32 + 5
		{BucketSecs: 159072863, Refill: time.Hour, MinSecs: 15, FPS: 27}, // 4294967301 frames
	} {
		myIdx := idx + 5000000 + int64(k)
		if !c.Mine(myIdx) {
			continue
		}
		hc := hc
		ops := []callerOp{}
		for rec := 0; rec < 4; rec++ {
			ops = append(ops, callerOp{'S', time.Second})
			for w := 0; w < 150+60*rec; w++ {
				ops = append(ops, callerOp{'W', time.Second / time.Duration(hc.FPS)})
			}
			ops = append(ops, callerOp{'P', 0})
		}
		c.Case(myIdx, func() interface{} {
			return map[string]interface{}{"config": hc.String(), "schedule": "4 recordings of 150..330 frames"}
		}, func() {
			runSchedule(c, prop, hc, ops, nil, "budget beyond 2^31 frames")
			c.Count("schedules_with_budgets_beyond_2^31_frames", 1)
		})
	}
	// Part 2: wrapped start failing at every call index (schedules with <= 12 base starts)
	ns := c.N(400, 40000)
	for s := int64(0); s < ns; s++ {
		rng := c.RNG(idx + s*100)
		cfg := thRandomConfig(rng)
		cfg.BucketSecs = rng.PickInt(1, 2, 5)
		ops := thSchedule(rng, cfg, rng.Range(5, 80))
		for k := 0; k < 12; k++ {
			myIdx := idx + s*100 + int64(k)
			if !c.Mine(myIdx) {
				continue
			}
			kk := k
			c.Case(myIdx, func() interface{} {
				return map[string]interface{}{"config": cfg.String(), "schedule": schedString(ops, 200), "wrapped_start_fails_at_call": kk}
			}, func() {
				runSchedule(c, prop, cfg, ops, func(n int) bool { return n == kk }, "start-failure-at-index")
				c.Count("schedules_with_start_failures", 1)
			})
		}
	}
	idx += ns * 100
	// Part 3: constructed within budget (transparency without reading the bucket)
	nt := c.N(3000, 300000)
	for s := int64(0); s < nt; s++ {
		myIdx := idx
		idx++
		if !c.Mine(myIdx) {
			continue
		}
		rng := c.RNG(myIdx)
		cfg := thRandomConfig(rng)
		if cfg.B() < cfg.minLen()+2 {
			cfg.BucketSecs = cfg.MinSecs + rng.Range(1, 5)
		}
		budget := cfg.B() - cfg.minLen()
		ops := []callerOp{}
		used := int64(0)
		for used < budget && len(ops) < 3000 {
			ops = append(ops, callerOp{'S', rng.PickDur(0, time.Second/9)})
			w := int64(rng.Range(0, 20))
			if used+w > budget {
				w = budget - used
			}
			for i := int64(0); i < w; i++ {
				ops = append(ops, callerOp{'W', rng.PickDur(0, time.Second/9, time.Second/time.Duration(cfg.FPS))})
			}
			used += w
			ops = append(ops, callerOp{'P', 0})
			if rng.Chance(10) {
				break
			}
		}
		c.Case(myIdx, func() interface{} {
			return map[string]interface{}{"config": cfg.String(), "schedule": schedString(ops, 200), "class": "within budget"}
		}, func() {
			r := newThRun(cfg)
			frame := cptvframe.NewFrame(tCam{4, 3, cfg.FPS})
			bg := cptvframe.NewFrame(tCam{4, 3, cfg.FPS})
			want := []byte{}
			for i, op := range ops {
				r.clock.now = r.clock.now.Add(op.Advance)
				frame.Status.FrameCount = i
				var err error
				switch op.Op {
				case 'S':
					err = r.th.StartRecording(bg, 1234)
				case 'W':
					err = r.th.WriteFrame(frame)
				case 'P':
					err = r.th.StopRecording()
				}
				want = append(want, op.Op)
				if err != nil {
					c.Violation("within-budget-error", "within budget", fmt.Sprintf("op #%d %c returned %v", i, op.Op, err))
					return
				}
			}
			got := []byte{}
			for _, o := range r.base.ops {
				got = append(got, o.Op)
			}
			if prop == "C06" && (string(got) != string(want) || r.events.n != 0) {
				c.Violation("within-budget-not-transparent", "within budget", fmt.Sprintf("caller trace %s, wrapped recorder saw %s, %d events", string(want), string(got), r.events.n))
				return
			}
			if prop == "C05" {
				if _, w := boundCheck(r.base.ops, cfg); w != "" {
					c.Violation("bucket-bound-exceeded", "within budget", w)
				}
			}
			c.Count("within_budget_schedules", 1)
			c.Count("forwarded_writes", used)
			if used > 0 {
				c.Nontrivial(vNewHash().Str(cfg.String()).Bytes(want).U64(uint64(myIdx)).Sum())
			}
		})
	}
	// Part 4: composition with the real MotionProcessor (fake clock advanced 1/fps per frame)
	nc := c.N(150, 20000)
	for s := int64(0); s < nc; s++ {
		myIdx := idx
		idx++
		if !c.Mine(myIdx) {
			continue
		}
		rng := c.RNG(myIdx)
		cfg := thConfig{BucketSecs: rng.PickInt(2, 4, 10), Refill: rng.PickDur(2*time.Second, 10*time.Second, time.Minute), FPS: rng.PickInt(1, 3, 9)}
		minS, prevS := rng.Range(0, 2), rng.Range(0, 2)
		if minS+prevS == 0 {
			minS = 1
		}
		cfg.MinSecs = minS + prevS
		maxS := minS + rng.Range(0, 6)
		continuous := rng.Chance(50)
		nframes := int(cfg.B()) * rng.Range(5, 20)
		c.Case(myIdx, func() interface{} {
			return map[string]interface{}{"config": cfg.String(), "min": minS, "preview": prevS, "max": maxS, "frames": nframes, "continuous_motion": continuous}
		}, func() {
			r := newThRun(cfg)
			mc := &config.ThermalMotion{TempThresh: 0, DeltaThresh: 10, CountThresh: 1, FrameCompareGap: 1, UseOneDiffOnly: true, TriggerFrames: 1}
			rc := &recorder.RecorderConfig{MinSecs: minS, MaxSecs: maxS, PreviewSecs: prevS, Window: window.Window{NoWindow: true}}
			cam := tCam{4, 3, cfg.FPS}
			mp := motion.NewMotionProcessor(nil, mc, rc, &config.Location{}, nil, r.th, cam, nil, new(recorder.NoWriteRecorder))
			f := cptvframe.NewFrame(cam)
			level := uint16(3000)
			pm := rng.PickInt(30, 70)
			for i := 0; i < nframes; i++ {
				r.clock.now = r.clock.now.Add(time.Second / time.Duration(cfg.FPS))
				if continuous || rng.Chance(pm) {
					level = 8000 - level
				}
				for y := range f.Pix {
					for x := range f.Pix[y] {
						f.Pix[y][x] = 1000
					}
				}
				f.Pix[1][1] = level
				f.Status = cptvframe.Telemetry{TimeOn: time.Minute + time.Duration(i)*time.Second, FrameCount: i}
				mp.ProcessFrame(f)
			}
			if p := pairingCheck(r.base.ops); p != "" && prop == "C06" {
				c.Violation("base-calls-not-paired", "composition", p)
				return
			}
			maxEx, w := boundCheck(r.base.ops, cfg)
			if w != "" && prop == "C05" {
				c.Violation("bucket-bound-exceeded", "composition with MotionProcessor", w)
				return
			}
			if maxEx > -1e17 {
				c.Max("max:excess_over_bound_x1000", int64(maxEx*1000))
			}
			nw := 0
			for _, o := range r.base.ops {
				if o.Op == 'W' {
					nw++
				}
			}
			c.Count("composition_runs", 1)
			c.Count("composition_forwarded_writes", int64(nw))
			c.Count("throttled_events", int64(r.events.n))
			if r.events.n > 0 {
				c.Nontrivial(vNewHash().Str(cfg.String()).Int(nw).Int(r.events.n).U64(uint64(myIdx)).Sum())
			}
		})
	}
}
