//go:build verif
// +build verif

package throttle

// C06 with the constructor main.go uses (NewThrottledRecorder: production clock, the caller's
// event listener): exactly one 'throttled' notification per cut and per suppressed start, also
// when they follow each other faster than a (slow) listener returns. The listener may be
// called from any goroutine; the count is read after a grace period.

import (
	"fmt"
	"sync/atomic"
	"testing"
	"time"

	config "github.com/TheCacophonyProject/go-config"
	"github.com/TheCacophonyProject/go-cptv/cptvframe"
)

type slowListener struct {
	n     int64
	delay time.Duration
}

func (l *slowListener) WhenThrottled() {
	if l.delay > 0 {
		time.Sleep(l.delay)
	}
	atomic.AddInt64(&l.n, 1)
}

type countingBase struct{ starts, writes, stops int }

func (b *countingBase) StopRecording() error                          { b.stops++; return nil }
func (b *countingBase) StartRecording(*cptvframe.Frame, uint16) error { b.starts++; return nil }
func (b *countingBase) WriteFrame(*cptvframe.Frame) error             { b.writes++; return nil }
func (b *countingBase) CheckCanRecord() error                         { return nil }

func TestVerif_C06Production(t *testing.T) {
	c := vStart(t, "C06", "TestVerif_C06Production")
	defer c.Finish()
	n := c.N(24, 240)
	for idx := int64(0); idx < n; idx++ {
		if !c.Mine(idx) {
			continue
		}
		rng := c.RNG(idx)
		fps := rng.PickInt(3, 9)
		bucketS, minS := rng.Range(1, 3), 1
		suppressed := rng.Range(2, 8)
		delay := time.Duration(rng.PickInt(0, 0, 5, 20)) * time.Millisecond
		c.Case(idx, func() interface{} {
			return map[string]interface{}{"fps": fps, "bucket_secs": bucketS, "min_plus_preview_secs": minS, "refill": "1h", "suppressed_starts_after_the_cut": suppressed, "listener_delay": delay.String()}
		}, func() {
			base := &countingBase{}
			l := &slowListener{delay: delay}
			tc := &config.ThermalThrottler{Activate: true, BucketSize: time.Duration(bucketS) * time.Second, MinRefill: time.Hour}
			th := NewThrottledRecorder(base, tc, minS, l, tCam{4, 3, fps})
			frame := cptvframe.NewFrame(tCam{4, 3, fps})
			th.StartRecording(frame, 3000)
			for i := 0; i < bucketS*fps+3; i++ { // runs dry: one cut
				th.WriteFrame(frame)
			}
			th.StopRecording()
			for k := 0; k < suppressed; k++ { // no budget for a minimum recording: suppressed starts
				th.StartRecording(frame, 3000)
				th.WriteFrame(frame)
				th.StopRecording()
			}
			want := int64(1 + suppressed)
			deadline := time.Now().Add(3*time.Second + time.Duration(want)*delay)
			for atomic.LoadInt64(&l.n) < want && time.Now().Before(deadline) {
				time.Sleep(2 * time.Millisecond)
			}
			time.Sleep(20 * time.Millisecond) // a late extra event would be wrong too
			if got := atomic.LoadInt64(&l.n); got != want {
				c.Violation("event-count", "production constructor", fmt.Sprintf("one cut and %d suppressed starts in quick succession (listener takes %v per call): %d 'throttled' notifications, expected %d", suppressed, delay, got, want))
				return
			}
			if base.writes != bucketS*fps || base.starts != 1 || base.stops != 1 {
				c.Violation("base-calls-not-paired", "production constructor", fmt.Sprintf("storage saw %d starts, %d writes, %d stops; expected 1, %d, 1", base.starts, base.writes, base.stops, bucketS*fps))
				return
			}
			c.Count("production_constructor_runs", 1)
			c.Count("notifications_checked", want)
			c.Nontrivial(vNewHash().U64(uint64(idx)).Int(suppressed).Int(int(delay)).Sum())
		})
	}
}
