//go:build verif
// +build verif

package throttle

// C05 under wall-clock steps. "Over any time interval" is elapsed time: on a Pi
// without RTC the wall clock is stepped (NTP sync, `date -s`) while the daemon
// runs, and a bucket that refills by wall-clock difference hands out a whole
// bucket for free. A test cannot step the system clock, so the monitor wraps the
// clock the production constructor installed (whatever it is) and rewrites only
// the wall part of its readings, which is exactly what the kernel reports after a
// step: the monotonic part of a reading is not affected. The throttler is then
// driven in real time and the bound is evaluated on monotonic timestamps taken
// by the monitor around every call (pre <= bucket reading <= post), so machine
// load can only make the bound looser, never produce an alarm.

import (
	"fmt"
	"math/big"
	"reflect"
	"testing"
	"time"
	"unsafe"

	config "github.com/TheCacophonyProject/go-config"
	"github.com/TheCacophonyProject/go-cptv/cptvframe"
	"github.com/juju/ratelimit"
)

// timeRepr mirrors the layout of time.Time (wall, ext, loc; unchanged since Go 1.9).
type timeRepr struct {
	wall uint64
	ext  int64
	loc  *time.Location
}

const reprHasMonotonic = 1 << 63

type stepClock struct {
	inner ratelimit.Clock
	step  time.Duration // whole seconds
}

func (c *stepClock) Now() time.Time {
	t := c.inner.Now()
	if c.step == 0 {
		return t
	}
	r := (*timeRepr)(unsafe.Pointer(&t))
	if r.wall&reprHasMonotonic == 0 {
		return t.Add(c.step) // plain wall reading: moves with the wall clock
	}
	secs := int64(r.wall<<1>>31) + int64(c.step/time.Second) // wall seconds since 1885 live in bits 30..62
	r.wall = r.wall&^(uint64(1<<33-1)<<30) | uint64(secs)<<30
	return t
}
func (c *stepClock) Sleep(d time.Duration) { c.inner.Sleep(d) }

// wrapProductionClock replaces the clock inside the throttler's bucket by a stepClock around it.
func wrapProductionClock(th *ThrottledRecorder) (*stepClock, error) {
	f := reflect.ValueOf(th.bucket).Elem().FieldByName("clock")
	if !f.IsValid() {
		return nil, fmt.Errorf("ratelimit.Bucket has no clock field")
	}
	f = reflect.NewAt(f.Type(), unsafe.Pointer(f.UnsafeAddr())).Elem()
	inner, ok := f.Interface().(ratelimit.Clock)
	if !ok || inner == nil {
		return nil, fmt.Errorf("bucket clock is %v", f.Interface())
	}
	sc := &stepClock{inner: inner}
	f.Set(reflect.ValueOf(sc))
	return sc, nil
}

type stepWrite struct{ pre, post time.Duration }

type stepBase struct {
	t0     time.Time
	pre    time.Duration
	writes []stepWrite
	open   bool
	starts int
}

func (b *stepBase) StartRecording(bg *cptvframe.Frame, th uint16) error {
	b.open = true
	b.starts++
	return nil
}
func (b *stepBase) StopRecording() error { b.open = false; return nil }
func (b *stepBase) WriteFrame(f *cptvframe.Frame) error {
	b.writes = append(b.writes, stepWrite{b.pre, time.Since(b.t0)})
	return nil
}
func (b *stepBase) CheckCanRecord() error { return nil }

// stepBound: for all i<=j, j-i+1 <= B + 1.01*r*(post_j - pre_i) + 2, exact verdict in big integers.
func stepBound(w []stepWrite, cfg thConfig) string {
	r := cfg.rate() * 1.01
	minG, minI := 0.0, 0
	for j := range w {
		gi := float64(j) - r*w[j].pre.Seconds()
		if j == 0 || gi < minG {
			minG, minI = gi, j
		}
		excess := float64(j) - r*w[j].post.Seconds() - minG + 1 - float64(cfg.B())
		if excess > 1.99 {
			n, dt := int64(j-minI+1), w[j].post-w[minI].pre
			lhs := new(big.Int).Mul(big.NewInt(n-cfg.B()-2), big.NewInt(100))
			lhs.Mul(lhs, big.NewInt(int64(cfg.Refill)))
			rhs := new(big.Int).Mul(big.NewInt(101), big.NewInt(cfg.minLen()))
			rhs.Mul(rhs, big.NewInt(int64(dt)))
			if lhs.Cmp(rhs) > 0 {
				return fmt.Sprintf("%d frames reached storage between write #%d (call entered at +%v) and write #%d (stored at +%v of elapsed time): allowed B=%d + 1.01*%.4g/s*%.6fs + 2 = %.2f",
					n, minI, w[minI].pre, j, w[j].post, cfg.B(), cfg.rate(), dt.Seconds(), float64(cfg.B())+r*dt.Seconds()+2)
			}
		}
	}
	return ""
}

var stepChoices = []time.Duration{time.Second, time.Minute, time.Hour, 26 * time.Hour, 40 * 24 * time.Hour}

func TestVerif_C05ClockStep(t *testing.T) {
	c := vStart(t, "C05", "TestVerif_C05ClockStep")
	defer c.Finish()
	n := c.N(64, 1600)
	for idx := int64(0); idx < n; idx++ {
		if !c.Mine(idx) {
			continue
		}
		rng := c.RNG(idx)
		cfg := thConfig{BucketSecs: rng.PickInt(1, 2, 5, 10), MinSecs: rng.PickInt(1, 2, 5), FPS: rng.PickInt(1, 3, 9)}
		cfg.Refill = []time.Duration{time.Second, 10 * time.Second, time.Minute, 10 * time.Minute, time.Hour, 700 * time.Millisecond}[rng.Intn(6)]
		if rng.Chance(15) {
			cfg = thConfig{BucketSecs: 600, Refill: 10 * time.Minute, MinSecs: 15, FPS: 9} // shipped defaults
		}
		type ev struct {
			Op   byte // S W P  J(step)  Z(sleep)
			Step time.Duration
		}
		var sched []ev
		bursts := rng.Range(2, 6)
		for b := 0; b < bursts; b++ {
			if b > 0 || rng.Chance(30) {
				s := stepChoices[rng.Intn(len(stepChoices))]
				if rng.Chance(25) {
					s = -s
				}
				sched = append(sched, ev{Op: 'J', Step: s})
			}
			if rng.Chance(30) {
				sched = append(sched, ev{Op: 'Z', Step: time.Duration(rng.Range(1, 5)) * time.Millisecond})
			}
			sched = append(sched, ev{Op: 'S'})
			k := int(cfg.B()) + rng.Range(1, 60)
			if rng.Chance(30) {
				k = rng.Range(1, int(cfg.B()))
			}
			for i := 0; i < k; i++ {
				sched = append(sched, ev{Op: 'W'})
				if rng.Chance(2) {
					s := stepChoices[rng.Intn(len(stepChoices))]
					if rng.Chance(25) {
						s = -s
					}
					sched = append(sched, ev{Op: 'J', Step: s}) // a step in mid-recording
				}
			}
			sched = append(sched, ev{Op: 'P'})
		}
		desc := func() interface{} {
			out := []string{}
			run := 0
			flush := func() {
				if run > 0 {
					out = append(out, fmt.Sprintf("W x%d", run))
					run = 0
				}
			}
			for _, e := range sched {
				switch e.Op {
				case 'W':
					run++
				case 'J':
					flush()
					out = append(out, fmt.Sprintf("wall clock stepped by %v", e.Step))
				case 'Z':
					flush()
					out = append(out, fmt.Sprintf("sleep %v", e.Step))
				default:
					flush()
					out = append(out, string(e.Op))
				}
			}
			flush()
			return map[string]interface{}{"config": cfg.String(), "clock": "production clock, wall part rewritten as after a step", "schedule": out}
		}
		c.Case(idx, desc, func() {
			base := &stepBase{t0: time.Now()}
			tc := &config.ThermalThrottler{Activate: true, BucketSize: time.Duration(cfg.BucketSecs) * time.Second, MinRefill: cfg.Refill}
			th := NewThrottledRecorder(base, tc, cfg.MinSecs, &evCounter{}, tCam{4, 3, cfg.FPS})
			clock, err := wrapProductionClock(th)
			if err != nil {
				c.Inconclusive("cannot reach the production clock: " + err.Error())
				return
			}
			frame := cptvframe.NewFrame(tCam{4, 3, cfg.FPS})
			fwd, back, dry, afterStep := 0, 0, false, 0
			stepped := false
			for _, e := range sched {
				base.pre = time.Since(base.t0)
				before := len(base.writes)
				switch e.Op {
				case 'S':
					th.StartRecording(frame, 3000)
				case 'W':
					th.WriteFrame(frame)
					if len(base.writes) == before {
						dry = true
					} else if stepped {
						afterStep++
					}
				case 'P':
					th.StopRecording()
				case 'J':
					clock.step += e.Step
					stepped = true
					if e.Step > 0 {
						fwd++
					} else {
						back++
					}
				case 'Z':
					time.Sleep(e.Step)
				}
			}
			if w := stepBound(base.writes, cfg); w != "" {
				c.Violation("token-bucket-bound", "wall clock stepped while running", w)
				return
			}
			c.Count("clock_step_runs", 1)
			c.Count("clock_steps_forward", int64(fwd))
			c.Count("clock_steps_backward", int64(back))
			c.Count("writes_forwarded_after_a_step", int64(afterStep))
			c.Count("forwarded_writes", int64(len(base.writes)))
			if dry {
				c.Count("runs_with_dry_bucket", 1)
			}
			if dry && fwd > 0 {
				h := vNewHash().Str(cfg.String()).Int(len(sched)).Int(len(base.writes))
				for _, e := range sched {
					if e.Op == 'J' {
						h.U64(uint64(e.Step))
					}
				}
				c.Nontrivial(h.Sum())
				c.Sample("clock-step run", func() interface{} {
					return map[string]interface{}{"config": cfg.String(), "frames_stored": len(base.writes), "bucket_frames": cfg.B(), "steps_forward": fwd, "steps_backward": back}
				})
			}
		})
	}
}
