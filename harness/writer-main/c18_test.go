//go:build verif
// +build verif

package main

// C18 - thermal-writer stores every frame once, in order, byte-for-byte, in
// well-formed CPTR files, however reader and writer goroutines interleave.
// Offline file checker (independent CPTR parser) + event-log conservation
// check at the hooks + Go race detector.

import (
	"encoding/binary"
	"fmt"
	"io"
	"io/ioutil"
	"net"
	"os"
	"path/filepath"
	"runtime"
	"sort"
	"sync"
	"testing"
	"time"

	"gopkg.in/yaml.v1"

	"github.com/TheCacophonyProject/thermal-recorder/headers"
)

// ---------------------------------------------------------------- CPTR parser (independent)

type cptrFile struct {
	Name   string
	Fields map[byte][]byte
	Frames [][]byte
}

func parseFields(b []byte, n int) (map[byte][]byte, []byte, error) {
	out := map[byte][]byte{}
	for i := 0; i < n; i++ {
		if len(b) < 2 {
			return nil, nil, fmt.Errorf("field %d: truncated field header", i)
		}
		l, code := int(b[0]), b[1]
		if len(b) < 2+l {
			return nil, nil, fmt.Errorf("field %d (%c): truncated data", i, code)
		}
		if _, dup := out[code]; dup {
			return nil, nil, fmt.Errorf("field %c repeated", code)
		}
		out[code] = b[2 : 2+l]
		b = b[2+l:]
	}
	return out, b, nil
}

func parseCPTR(path string) (*cptrFile, error) {
	b, err := ioutil.ReadFile(path)
	if err != nil {
		return nil, err
	}
	f := &cptrFile{Name: filepath.Base(path)}
	if len(b) < 7 || string(b[:4]) != "CPTR" {
		return nil, fmt.Errorf("bad magic %q", b[:minI(len(b), 4)])
	}
	if b[4] != 2 {
		return nil, fmt.Errorf("version %d", b[4])
	}
	if b[5] != 'H' {
		return nil, fmt.Errorf("expected header section, got %q", b[5])
	}
	fields, rest, err := parseFields(b[7:], int(b[6]))
	if err != nil {
		return nil, fmt.Errorf("header: %v", err)
	}
	f.Fields = fields
	for len(rest) > 0 {
		if len(rest) < 2 || rest[0] != 'F' {
			return nil, fmt.Errorf("frame %d: expected frame section, found %q (trailing garbage?)", len(f.Frames), rest[0])
		}
		ff, r2, err := parseFields(rest[2:], int(rest[1]))
		if err != nil {
			return nil, fmt.Errorf("frame %d: %v", len(f.Frames), err)
		}
		sz, ok := ff['f']
		if !ok || len(sz) != 4 || len(ff) != 1 {
			return nil, fmt.Errorf("frame %d: frame-size field missing or extra fields", len(f.Frames))
		}
		n := int(binary.LittleEndian.Uint32(sz))
		if len(r2) < n {
			return nil, fmt.Errorf("frame %d: payload truncated (%d of %d bytes)", len(f.Frames), len(r2), n)
		}
		f.Frames = append(f.Frames, r2[:n])
		rest = r2[n:]
	}
	return f, nil
}

func minI(a, b int) int {
	if a < b {
		return a
	}
	return b
}

// ---------------------------------------------------------------- workload

func framePayload(seq, size int, salt uint64) []byte {
	b := make([]byte, size)
	r := vNewRNG(salt, uint64(seq))
	for i := 0; i+8 <= size; i += 8 {
		binary.LittleEndian.PutUint64(b[i:], r.U64())
	}
	for i := size - size%8; i < size; i++ {
		b[i] = byte(r.U64())
	}
	// id stamp (as far as it fits)
	var id [8]byte
	binary.LittleEndian.PutUint64(id[:], uint64(seq)+1)
	copy(b, id[:])
	return b
}

type wEvents struct {
	mu        sync.Mutex
	cond      *sync.Cond
	counts    map[string]int
	maxIn     int
	hist      map[int]int
	exited    bool
	closing   bool
	order     []string // last events, for witnesses
	pairs     map[string]bool
	lastR     string
	lastW     string
	violation string
}

func newWEvents() *wEvents {
	e := &wEvents{counts: map[string]int{}, hist: map[int]int{}, pairs: map[string]bool{}}
	e.cond = sync.NewCond(&e.mu)
	return e
}

// record is called at every hook; it keeps the conservation invariant
// filled = written + in flight under the monitor's own lock.
func (e *wEvents) record(name string) {
	e.mu.Lock()
	defer e.mu.Unlock()
	e.counts[name]++
	switch name {
	case "w.buf.taken", "w.frame.filled", "w.frame.queued", "w.reader.closing":
		e.lastR = name
	default:
		e.lastW = name
	}
	e.pairs[e.lastR+"|"+e.lastW] = true
	// in flight = filled but not yet written. ("recycled" is logged after the buffer
	// has been handed back, so the reader may refill it before that hook runs.)
	in := e.counts["w.frame.filled"] - e.counts["w.frame.written"]
	if in > e.maxIn {
		e.maxIn = in
	}
	if name == "w.frame.filled" {
		b := in / 32 * 32
		e.hist[b]++
	}
	if in > 256 && e.violation == "" {
		e.violation = fmt.Sprintf("%d frames in flight (filled %d, written %d) with only 256 buffers", in, e.counts["w.frame.filled"], e.counts["w.frame.written"])
	}
	if e.counts["w.frame.written"] > e.counts["w.frame.filled"] && e.violation == "" {
		e.violation = fmt.Sprintf("written %d > filled %d", e.counts["w.frame.written"], e.counts["w.frame.filled"])
	}
	if name == "w.writer.exited" {
		e.exited = true
		if e.counts["w.frame.written"] != e.counts["w.frame.queued"] && e.violation == "" {
			e.violation = fmt.Sprintf("writer exited (file closed) with %d frames written but %d queued", e.counts["w.frame.written"], e.counts["w.frame.queued"])
		}
	}
	if name == "w.reader.closing" {
		e.closing = true
	}
	e.cond.Broadcast()
}

type c18Case struct {
	Size, Count int
	CutMid      bool
	Stall       int // 0 none, 1 writer stalled until the backlog is full, 2 reader stalled, 3 alternating, 4 random us sleeps
	Chunk       int
	Pause       bool // the sender goes quiet in the middle of one frame for longer than any read timeout (played 30x faster)
}

// scaledDeadlineConn shortens every deadline the code under test arms by a factor of 30; code
// that arms none never notices.
type scaledDeadlineConn struct{ net.Conn }

func scaleDeadline(t time.Time) time.Time {
	if t.IsZero() {
		return t
	}
	return time.Now().Add(time.Until(t) / 30)
}
func (c *scaledDeadlineConn) SetDeadline(t time.Time) error {
	return c.Conn.SetDeadline(scaleDeadline(t))
}
func (c *scaledDeadlineConn) SetReadDeadline(t time.Time) error {
	return c.Conn.SetReadDeadline(scaleDeadline(t))
}
func (c *scaledDeadlineConn) SetWriteDeadline(t time.Time) error {
	return c.Conn.SetWriteDeadline(scaleDeadline(t))
}

func (k c18Case) String() string {
	return fmt.Sprintf("frame-size=%d frames=%d cut-in-mid-frame=%v stall=%d chunk-mode=%d pause=%v GOMAXPROCS=%d", k.Size, k.Count, k.CutMid, k.Stall, k.Chunk, k.Pause, runtime.GOMAXPROCS(0))
}

func headerFor(size int) []byte {
	m := map[string]interface{}{headers.XResolution: 160, headers.YResolution: 120, headers.FrameSize: size, headers.Model: "lepton3", headers.Brand: "flir", headers.FPS: 9, headers.Serial: 7, headers.Firmware: "1.0.0"}
	b, _ := yaml.Marshal(m)
	return append(b, '\n')
}

func runC18(c *vCtx, scratch string, idx int64, k c18Case, paceTotal time.Duration) {
	rng := c.RNG(idx)
	salt := rng.U64()
	dir, err := ioutil.TempDir(scratch, "c18-")
	if err != nil {
		c.Inconclusive(err.Error())
		return
	}
	defer os.RemoveAll(dir)
	conf := &Config{DeviceID: 99, DeviceName: "verif-writer", OutputDir: dir}
	frameLogIntervalFirstMin, frameLogInterval = 15, 60*5
	ev := newWEvents()
	hrng := vNewRNG(rng.U64())
	var hmu sync.Mutex
	VerifHook = func(name string) {
		ev.record(name)
		hmu.Lock()
		r := hrng.Intn(1000)
		hmu.Unlock()
		switch k.Stall {
		case 1:
			// writer waits (bounded) until all 256 buffers are in flight or the reader is done
			if name == "w.frame.dequeued" {
				ev.mu.Lock()
				deadline := time.Now().Add(2 * time.Second)
				for ev.counts["w.frame.filled"]-ev.counts["w.frame.written"] < 256 && !ev.closing && time.Now().Before(deadline) {
					ev.mu.Unlock()
					time.Sleep(200 * time.Microsecond)
					ev.mu.Lock()
				}
				ev.mu.Unlock()
			}
		case 2:
			if name == "w.buf.taken" && r < 100 {
				time.Sleep(time.Duration(r) * 10 * time.Microsecond)
			}
		case 3:
			if (name == "w.frame.dequeued" && (ev.count("w.frame.dequeued")/50)%2 == 0) || (name == "w.buf.taken" && (ev.count("w.buf.taken")/50)%2 == 1) {
				time.Sleep(150 * time.Microsecond)
			}
		case 4:
			if r < 60 {
				time.Sleep(time.Duration(r) * time.Microsecond)
			} else if r < 200 {
				runtime.Gosched()
			}
		}
	}
	defer func() { VerifHook = nil }()
	a, b := net.Pipe()
	done := make(chan error, 1)
	go func() {
		defer b.Close() // unblocks the feeder if handleConn gives up early
		defer func() {
			if p := recover(); p != nil {
				done <- fmt.Errorf("PANIC: %v", p)
			}
		}()
		done <- handleConn(&scaledDeadlineConn{b}, conf, false)
	}()
	// feed
	var sent [][]byte
	wrote := func(p []byte) error {
		for len(p) > 0 {
			n := len(p)
			switch k.Chunk {
			case 1:
				n = 1
			case 2:
				n = rng.Range(1, 7000)
			case 3:
				n = rng.Range(1, 64)
			}
			if n > len(p) {
				n = len(p)
			}
			if _, err := a.Write(p[:n]); err != nil {
				return err
			}
			p = p[n:]
		}
		return nil
	}
	var werr error
	if k.Chunk >= 4 && k.Size*k.Count <= 8<<20 {
		// header and frames as ONE byte stream cut into segments that ignore frame boundaries
		// (a sender whose writes are not frame-aligned): mode 4 random lengths, mode 5 one byte
		// more than a frame, mode 6 one byte less
		stream := append([]byte{}, headerFor(k.Size)...)
		for i := 0; i < k.Count; i++ {
			p := framePayload(i, k.Size, salt)
			if i == 0 && idx%2 == 0 {
				// the first frame begins with line feeds, which arrive in the same segment as the
				// blank line that ends the header
				for j := 0; j < len(p) && j < 1+int(idx%3); j++ {
					p[j] = '\n'
				}
				c.Count("first_frames_beginning_with_line_feeds", 1)
			}
			sent = append(sent, p)
			stream = append(stream, p...)
		}
		if k.CutMid && k.Size > 1 {
			stream = append(stream, framePayload(k.Count, k.Size, salt)[:k.Size/2]...)
		}
		for len(stream) > 0 && werr == nil {
			n := k.Size + 1
			switch k.Chunk {
			case 4:
				n = rng.Range(1, 2*k.Size+10)
			case 6:
				n = k.Size - 1
			}
			if n < 1 {
				n = 1
			}
			if n > len(stream) {
				n = len(stream)
			}
			_, werr = a.Write(stream[:n])
			stream = stream[n:]
		}
	} else {
		werr = wrote(headerFor(k.Size))
		for i := 0; i < k.Count && werr == nil; i++ {
			p := framePayload(i, k.Size, salt)
			sent = append(sent, p)
			if k.Pause && i == k.Count/2 && k.Size > 1 {
				// the camera goes quiet half way through this frame (a 12 s silence at real speed)
				if werr = wrote(p[:k.Size/2]); werr == nil {
					time.Sleep(400 * time.Millisecond)
					werr = wrote(p[k.Size/2:])
				}
				c.Count("connections_quiet_in_mid_frame", 1)
			} else {
				werr = wrote(p)
			}
			if paceTotal > 0 {
				time.Sleep(paceTotal / time.Duration(k.Count))
			}
		}
		if k.CutMid && werr == nil && k.Size > 1 {
			werr = wrote(framePayload(k.Count, k.Size, salt)[:k.Size/2])
		}
	}
	a.Close()
	var herr error
	select {
	case herr = <-done:
	case <-time.After(120 * time.Second):
		c.Violation("reader-stuck", k.String(), "handleConn did not return within 120 s after the connection was closed")
		return
	}
	b.Close()
	// handleConn returns without joining the writer: wait for its exit hook
	ev.mu.Lock()
	deadline := time.Now().Add(120 * time.Second)
	for !ev.exited && time.Now().Before(deadline) {
		ev.mu.Unlock()
		time.Sleep(time.Millisecond)
		ev.mu.Lock()
	}
	exited := ev.exited
	viol := ev.violation
	maxIn := ev.maxIn
	counts := map[string]int{}
	for n, v := range ev.counts {
		counts[n] = v
	}
	hist := map[int]int{}
	for n, v := range ev.hist {
		hist[n] = v
	}
	pairs := []string{}
	for p := range ev.pairs {
		pairs = append(pairs, p)
	}
	ev.mu.Unlock()
	if !exited {
		c.Violation("writer-stuck", k.String(), fmt.Sprintf("writer goroutine did not exit within 120 s (counts %v)", counts))
		return
	}
	if werr != nil {
		c.Violation("stream-not-consumed", k.String(), fmt.Sprintf("write failed: %v (handleConn: %v)", werr, herr))
		return
	}
	wantErr := io.EOF
	if k.CutMid && k.Size > 1 {
		wantErr = io.ErrUnexpectedEOF
	}
	if herr != wantErr {
		c.Violation("connection-ended-abnormally", k.String(), fmt.Sprintf("handleConn returned %v, expected %v", herr, wantErr))
		return
	}
	if viol != "" {
		c.Violation("event-log-conservation", k.String(), viol)
		return
	}
	// ---- offline file check
	names, _ := filepath.Glob(filepath.Join(dir, "*.cptr"))
	sort.Strings(names)
	var stored [][]byte
	for _, n := range names {
		f, err := parseCPTR(n)
		if err != nil {
			c.Violation("malformed-cptr-file", k.String(), fmt.Sprintf("%s: %v", filepath.Base(n), err))
			return
		}
		want := map[byte]string{'E': "lepton3", 'B': "flir", 'D': "verif-writer"}
		for code, v := range want {
			if string(f.Fields[code]) != v {
				c.Violation("cptr-header-field", k.String(), fmt.Sprintf("%s: field %c = %q, expected %q", f.Name, code, f.Fields[code], v))
				return
			}
		}
		if len(f.Fields['T']) != 8 || len(f.Fields['X']) != 4 || binary.LittleEndian.Uint32(f.Fields['X']) != 160 || binary.LittleEndian.Uint32(f.Fields['Y']) != 120 ||
			len(f.Fields['Z']) != 1 || f.Fields['Z'][0] != 9 || len(f.Fields['C']) != 1 || f.Fields['C'][0] != 0 || len(f.Fields['I']) != 4 || binary.LittleEndian.Uint32(f.Fields['I']) != 99 {
			c.Violation("cptr-header-field", k.String(), fmt.Sprintf("%s: numeric header fields wrong: %v", f.Name, f.Fields))
			return
		}
		stored = append(stored, f.Frames...)
	}
	if len(names) == 0 {
		c.Violation("no-output-file", k.String(), "no .cptr file written")
		return
	}
	if len(stored) != len(sent) {
		c.Violation("frame-count", k.String(), fmt.Sprintf("%d frames sent, %d stored in %d file(s) (hook counts %v)", len(sent), len(stored), len(names), counts))
		return
	}
	for i := range sent {
		if string(stored[i]) != string(sent[i]) {
			id := uint64(0)
			if len(stored[i]) >= 8 {
				id = binary.LittleEndian.Uint64(stored[i]) - 1
			}
			c.Violation("frame-content", k.String(), fmt.Sprintf("stored frame %d differs from the frame sent (stored id stamp %d, length %d vs %d): lost, duplicated, reordered or aliased buffer", i, id, len(stored[i]), len(sent[i])))
			return
		}
	}
	c.Count("connections", 1)
	if k.Chunk >= 4 && k.Size*k.Count <= 8<<20 {
		c.Count("connections_with_segments_ignoring_frame_boundaries", 1)
	}
	c.Count("frames_verified", int64(len(sent)))
	c.Count("bytes_verified", int64(len(sent)*k.Size))
	c.Count("buffers_recycled", int64(counts["w.frame.recycled"]))
	c.Count("files", int64(len(names)))
	c.Max("max:frames_in_flight", int64(maxIn))
	for b, v := range hist {
		c.Count(fmt.Sprintf("in_flight_hist_%03d", b), int64(v))
	}
	for _, p := range pairs {
		c.Seen("reader_writer_phase_pairs", p)
	}
	c.Seen("gomaxprocs", fmt.Sprint(runtime.GOMAXPROCS(0)))
	if maxIn >= 256 {
		c.Count("runs_reaching_256_in_flight", 1)
	}
	if len(names) > 1 {
		c.Count("runs_crossing_file_rotation", 1)
	}
	c.Nontrivial(vNewHash().U64(uint64(idx)).Int(k.Size).Int(k.Count).Int(k.Stall).Int(maxIn).Sum())
	c.Sample("connection", func() interface{} {
		return map[string]interface{}{"case": k.String(), "files": len(names), "frames": len(sent), "max_in_flight": maxIn, "hook_counts": counts}
	})
}

func (e *wEvents) count(n string) int {
	e.mu.Lock()
	defer e.mu.Unlock()
	return e.counts[n]
}

func TestVerif_C18(t *testing.T) {
	c := vStart(t, "C18", "TestVerif_C18")
	defer c.Finish()
	scratch := vEnv("VERIF_SCRATCH", t.TempDir())
	sizes := []int{5, 16, 1000, 39040, 655360}
	counts := []int{0, 1, 255, 256, 257, 2000}
	idx := int64(0)
	// systematic grid
	for _, sz := range sizes {
		for _, n := range counts {
			for stall := 0; stall <= 4; stall++ {
				myIdx := idx
				idx++
				if !c.Mine(myIdx) {
					continue
				}
				if sz == 655360 && n > 300 {
					n = 300
				}
				if !c.Thorough() && (sz == 655360 && (stall > 1 || n > 1 && n != 257) || sz == 39040 && n == 2000 && stall > 1) {
					continue
				}
				k := c18Case{Size: sz, Count: n, Stall: stall, CutMid: myIdx%3 == 0, Chunk: int(myIdx % 4)}
				if k.Chunk == 1 && sz*n > 30000 {
					k.Chunk = 2
				}
				if myIdx%6 == 5 && n > 0 {
					k.Pause = true
				}
				c.Case(myIdx, func() interface{} { return k.String() }, func() { runC18(c, scratch, myIdx, k, 0) })
			}
		}
	}
	// random cases
	n := c.N(60, 4000)
	for s := int64(0); s < n; s++ {
		myIdx := idx
		idx++
		if !c.Mine(myIdx) {
			continue
		}
		rng := c.RNG(myIdx)
		k := c18Case{Size: rng.PickInt(5, 6, 16, 777, 1000, 4096, 4097, 39040), Count: rng.PickInt(0, 1, 2, 100, 255, 256, 257, 300, 600, 1500), Stall: rng.Intn(5), CutMid: rng.Chance(40), Chunk: rng.Intn(7)}
		if k.Chunk == 1 && k.Size*k.Count > 30000 {
			k.Chunk = 3
		}
		if myIdx%4 == 1 && k.Count > 0 {
			k.Pause, k.Chunk = true, k.Chunk%4
		}
		c.Case(myIdx, func() interface{} { return k.String() }, func() { runC18(c, scratch, myIdx, k, 0) })
	}
	// frames larger than the socket reader's buffer (4096 bytes), sent as one byte stream whose
	// segments ignore frame boundaries: every segment mode, a few frames, every time
	for _, sz := range []int{4097, 5000, 39040} {
		for _, nfr := range []int{2, 3, 10} {
			for mode := 4; mode <= 6; mode++ {
				myIdx := idx
				idx++
				if !c.Mine(myIdx) {
					continue
				}
				k := c18Case{Size: sz, Count: nfr, Chunk: mode, CutMid: myIdx%2 == 1}
				c.Case(myIdx, func() interface{} { return k.String() }, func() {
					runC18(c, scratch, myIdx, k, 0)
					c.Count("unaligned_streams_of_frames_above_the_reader_buffer", 1)
				})
			}
		}
	}
	// reconnect while the previous connection's writer is still lagging
	no := c.N(6, 60)
	for s := int64(0); s < no; s++ {
		myIdx := idx
		idx++
		if !c.Mine(myIdx) {
			continue
		}
		c.Case(myIdx, func() interface{} {
			return "reconnect while the previous connection's writer is stalled with a backlog"
		}, func() { runC18Overlap(c, scratch, myIdx) })
	}
	// thorough: one trickle run crossing the one-minute file rotation
	if c.Thorough() {
		myIdx := idx
		idx++
		if c.Mine(myIdx) {
			k := c18Case{Size: 1000, Count: 1300, Stall: 0, Chunk: 0}
			c.Case(myIdx, func() interface{} { return k.String() + " paced over 65 s (file rotation)" }, func() { runC18(c, scratch, myIdx, k, 65*time.Second) })
		}
	}
}

// TestVerif_C18Rotate runs only in the build whose rotation interval is
// shortened (driver package key writer-main-fastrotate): paced connections that
// cross several file rotations and end some time after the last one.
func TestVerif_C18Rotate(t *testing.T) {
	c := vStart(t, "C18", "TestVerif_C18Rotate")
	defer c.Finish()
	if newFileInterval > 10*time.Second {
		c.Inconclusive("rotation job started on a build with the real one-minute interval")
		return
	}
	scratch := vEnv("VERIF_SCRATCH", t.TempDir())
	n := c.N(4, 24)
	for idx := int64(0); idx < n; idx++ {
		if !c.Mine(idx) {
			continue
		}
		rng := c.RNG(idx)
		k := c18Case{Size: rng.PickInt(16, 1000, 4097), Count: rng.Range(300, 900), Stall: rng.PickInt(0, 0, 4), Chunk: rng.PickInt(0, 2), CutMid: rng.Bool()}
		total := time.Duration(rng.Range(5000, 7000)) * time.Millisecond
		c.Case(idx, func() interface{} {
			return k.String() + fmt.Sprintf(" paced over %v with a %v rotation interval", total, newFileInterval)
		}, func() {
			runC18(c, scratch, idx, k, total)
		})
	}
}

// runC18Overlap: a camera reconnect while the previous connection's writer is still
// lagging. handleConn returns as soon as its socket ends, without waiting for its
// writer goroutine, so two writers (two output files) can be alive at once; each file
// must still end up with exactly its own connection's frames.
func runC18Overlap(c *vCtx, scratch string, idx int64) {
	rng := c.RNG(idx)
	salt := rng.U64()
	type side struct {
		dir   string
		sent  [][]byte
		size  int
		count int
	}
	mk := func(size, count int) *side {
		d, _ := ioutil.TempDir(scratch, "c18o-")
		return &side{dir: d, size: size, count: count}
	}
	A, B := mk(rng.PickInt(16, 1000), rng.Range(40, 300)), mk(rng.PickInt(16, 1000), rng.Range(10, 200))
	defer os.RemoveAll(A.dir)
	defer os.RemoveAll(B.dir)
	frameLogIntervalFirstMin, frameLogInterval = 15, 60*5
	var mu sync.Mutex
	stallAfter := rng.Range(1, 20)
	if A.count-stallAfter > 250 {
		// the stalled writer holds one buffer and the queue the rest: with more than 256 frames
		// outstanding the reader (correctly) blocks on back-pressure and the first connection
		// could never end while the stall lasts
		stallAfter = A.count - 250
	}
	dequeued := 0
	stalled := false
	release := make(chan struct{})
	exits := 0
	VerifHook = func(name string) {
		mu.Lock()
		switch name {
		case "w.frame.dequeued":
			dequeued++
			if !stalled && dequeued == stallAfter {
				// the first connection's writer falls behind here and stays behind
				stalled = true
				mu.Unlock()
				<-release
				return
			}
		case "w.writer.exited":
			exits++
		}
		mu.Unlock()
	}
	defer func() { VerifHook = nil }()
	serve := func(sd *side, saltK uint64) error {
		conf := &Config{DeviceID: 99, DeviceName: "verif-writer", OutputDir: sd.dir}
		a, b := net.Pipe()
		done := make(chan error, 1)
		go func() {
			defer b.Close()
			defer func() {
				if p := recover(); p != nil {
					done <- fmt.Errorf("PANIC: %v", p)
				}
			}()
			done <- handleConn(b, conf, false)
		}()
		if _, err := a.Write(headerFor(sd.size)); err != nil {
			return err
		}
		for i := 0; i < sd.count; i++ {
			p := framePayload(i, sd.size, salt^saltK)
			sd.sent = append(sd.sent, p)
			if _, err := a.Write(p); err != nil {
				return err
			}
		}
		a.Close()
		select {
		case err := <-done:
			if err != io.EOF {
				return fmt.Errorf("handleConn returned %v", err)
			}
		case <-time.After(60 * time.Second):
			return fmt.Errorf("handleConn did not return")
		}
		return nil
	}
	if err := serve(A, 1); err != nil {
		close(release)
		c.Violation("connection-ended-abnormally", "overlapping connections", "first connection: "+err.Error())
		return
	}
	// the camera reconnects at once; the first writer is still stalled with a backlog
	time.Sleep(1100 * time.Millisecond) // file names have 1 s resolution even across directories? (different dirs; kept for safety)
	if err := serve(B, 2); err != nil {
		close(release)
		c.Violation("connection-ended-abnormally", "overlapping connections", "second connection: "+err.Error())
		return
	}
	close(release)
	ok := false
	for i := 0; i < 6000; i++ {
		mu.Lock()
		ok = exits >= 2
		mu.Unlock()
		if ok {
			break
		}
		time.Sleep(10 * time.Millisecond)
	}
	if !ok {
		c.Violation("writer-stuck", "overlapping connections", "both writer goroutines should have exited after the stall was released")
		return
	}
	for name, sd := range map[string]*side{"first": A, "second": B} {
		names, _ := filepath.Glob(filepath.Join(sd.dir, "*.cptr"))
		sort.Strings(names)
		var stored [][]byte
		for _, n := range names {
			f, err := parseCPTR(n)
			if err != nil {
				c.Violation("malformed-cptr-file", "overlapping connections", fmt.Sprintf("%s connection, %s: %v", name, filepath.Base(n), err))
				return
			}
			stored = append(stored, f.Frames...)
		}
		if len(stored) != len(sd.sent) {
			c.Violation("frame-count", "overlapping connections", fmt.Sprintf("%s connection: %d frames sent, %d stored in %d file(s)", name, len(sd.sent), len(stored), len(names)))
			return
		}
		for i := range sd.sent {
			if string(stored[i]) != string(sd.sent[i]) {
				c.Violation("frame-content", "overlapping connections", fmt.Sprintf("%s connection: stored frame %d differs from the frame sent", name, i))
				return
			}
		}
	}
	c.Count("overlapping_connection_pairs", 1)
	c.Count("frames_verified", int64(len(A.sent)+len(B.sent)))
	c.Nontrivial(vNewHash().U64(uint64(idx)).Int(A.count).Int(B.count).Int(stallAfter).Sum())
}
