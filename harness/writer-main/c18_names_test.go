//go:build verif
// +build verif

package main

// C18 across connections that share one output directory: every connection's frames must
// be stored exactly once whatever the wall clock reads when its files are opened - a
// reconnect within the same second, or the same minute:second twelve or twenty-four hours
// later (emulated by shifting the local time zone between connections; file names are
// local time).

import (
	"fmt"
	"io"
	"io/ioutil"
	"net"
	"os"
	"path/filepath"
	"sort"
	"sync"
	"testing"
	"time"
)

func TestVerif_C18Names(t *testing.T) {
	c := vStart(t, "C18", "TestVerif_C18Names")
	defer c.Finish()
	scratch := vEnv("VERIF_SCRATCH", t.TempDir())
	savedLocal := time.Local
	defer func() { time.Local = savedLocal }()
	n := c.N(48, 600)
	for idx := int64(0); idx < n; idx++ {
		if !c.Mine(idx) {
			continue
		}
		rng := c.RNG(idx)
		nconn := rng.Range(2, 4)
		size := rng.PickInt(16, 16, 1000)
		salt := rng.U64()
		counts := make([]int, nconn)
		shifts := make([]int, nconn) // hours added to the wall clock before this connection
		for k := range counts {
			counts[k] = rng.Range(1, 40)
			if k > 0 {
				shifts[k] = rng.PickInt(0, 0, 12, -12, 24, 1)
			}
		}
		c.Case(idx, func() interface{} {
			return map[string]interface{}{"connections": nconn, "frame_size": size, "frames_per_connection": counts, "wall_clock_hours_added_before_connection": shifts,
				"note": "connections are served back to back into ONE output directory"}
		}, func() {
			dir, _ := ioutil.TempDir(scratch, "c18n-")
			defer os.RemoveAll(dir)
			frameLogIntervalFirstMin, frameLogInterval = 15, 60*5
			var mu sync.Mutex
			exits := 0
			VerifHook = func(name string) {
				if name == "w.writer.exited" {
					mu.Lock()
					exits++
					mu.Unlock()
				}
			}
			defer func() { VerifHook = nil }()
			conf := &Config{DeviceID: 99, DeviceName: "verif-writer", OutputDir: dir}
			sent := map[string]int{}
			total := 0
			offset := 0
			t0 := time.Now()
			for k := 0; k < nconn; k++ {
				if shifts[k] != 0 {
					// the wall clock jumps only while no writer of an earlier connection is alive
					// (time.Local is read by their time formatting)
					for i := 0; i < 6000; i++ {
						mu.Lock()
						quiet := exits >= k
						mu.Unlock()
						if quiet {
							break
						}
						time.Sleep(10 * time.Millisecond)
					}
					offset += shifts[k]
					time.Local = time.FixedZone("verif", offset*3600)
				}
				a, b := net.Pipe()
				done := make(chan error, 1)
				go func() {
					defer b.Close()
					defer func() {
						if p := recover(); p != nil {
							done <- fmt.Errorf("PANIC: %v", p)
						}
					}()
					done <- handleConn(b, conf, false)
				}()
				if _, err := a.Write(headerFor(size)); err != nil {
					c.Violation("connection-ended-abnormally", "shared output directory", fmt.Sprintf("connection %d: header: %v", k, err))
					return
				}
				for i := 0; i < counts[k]; i++ {
					p := framePayload(1000*k+i, size, salt)
					sent[string(p)]++
					total++
					if _, err := a.Write(p); err != nil {
						c.Violation("connection-ended-abnormally", "shared output directory", fmt.Sprintf("connection %d: frame %d: %v", k, i, err))
						return
					}
				}
				a.Close()
				select {
				case err := <-done:
					if err != io.EOF {
						c.Violation("connection-ended-abnormally", "shared output directory", fmt.Sprintf("connection %d: handleConn returned %v", k, err))
						return
					}
				case <-time.After(60 * time.Second):
					c.Violation("connection-ended-abnormally", "shared output directory", fmt.Sprintf("connection %d: handleConn did not return", k))
					return
				}
			}
			elapsed := time.Since(t0)
			ok := false
			for i := 0; i < 6000; i++ {
				mu.Lock()
				ok = exits >= nconn
				mu.Unlock()
				if ok {
					break
				}
				time.Sleep(10 * time.Millisecond)
			}
			if !ok {
				c.Violation("writer-stuck", "shared output directory", "not every writer goroutine exited after its connection had ended")
				return
			}
			names, _ := filepath.Glob(filepath.Join(dir, "*.cptr"))
			sort.Strings(names)
			stored := map[string]int{}
			nstored := 0
			for _, n := range names {
				f, err := parseCPTR(n)
				if err != nil {
					c.Violation("malformed-cptr-file", "shared output directory", fmt.Sprintf("%s: %v", filepath.Base(n), err))
					return
				}
				for _, fr := range f.Frames {
					stored[string(fr)]++
					nstored++
				}
			}
			class := "reconnect within the same second"
			for _, s := range shifts {
				if s != 0 {
					class = "same time of day on another half-day or day"
				}
			}
			base := []string{}
			for _, n := range names {
				base = append(base, filepath.Base(n))
			}
			for p, k := range sent {
				if stored[p] != k {
					c.Violation("frames-lost-or-duplicated", class, fmt.Sprintf("%d connections served back to back within %v into one directory sent %d frames; %d are stored in %d file(s) %v (a frame sent %d time(s) is stored %d time(s)): a later file replaced an earlier one of the same name",
						nconn, elapsed, total, nstored, len(names), base, k, stored[p]))
					return
				}
			}
			if nstored != total {
				c.Violation("frames-lost-or-duplicated", class, fmt.Sprintf("%d frames sent, %d stored", total, nstored))
				return
			}
			c.Count("shared_directory_runs", 1)
			c.Count("connections_into_shared_directory", int64(nconn))
			c.Count("frames_verified", int64(total))
			if elapsed < time.Second {
				c.Count("runs_within_one_second", 1)
			}
			c.Nontrivial(vNewHash().U64(uint64(idx)).Int(nconn).Int(total).Sum())
		})
	}
}
