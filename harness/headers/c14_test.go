//go:build verif
// +build verif

package headers

// C14 (header part) - ReadHeaderInfo round-trips every field the camera daemon
// sends, consumes nothing beyond the blank line, and turns a truncated header
// into an error. Differential against the generator's description; encoder =
// yaml.v1 Marshal of a map keyed by the package constants + "\n", i.e. what
// cmd/leptond's sendCameraSpecs does.

import (
	"bufio"
	"bytes"
	"fmt"
	"io"
	"math"
	"testing"
	"time"

	"gopkg.in/yaml.v1"
)

type hdrDesc struct {
	ResX, ResY, FPS, FrameSize int
	Brand, Model, Firmware     string
	Serial                     uint64
}

func (d hdrDesc) encode() []byte {
	m := map[string]interface{}{
		XResolution: d.ResX, YResolution: d.ResY, FrameSize: d.FrameSize, Model: d.Model, Brand: d.Brand, FPS: d.FPS, Firmware: d.Firmware,
	}
	if d.Serial <= math.MaxInt64 {
		m[Serial] = int64(d.Serial)
		if int64(int(d.Serial)) == int64(d.Serial) {
			m[Serial] = int(d.Serial) // leptond's serial is an int
		}
	} else {
		m[Serial] = d.Serial
	}
	b, err := yaml.Marshal(m)
	if err != nil {
		panic(err)
	}
	return append(b, '\n')
}

// chunkReader delivers the stream in PRNG-chosen pieces.
type chunkReader struct {
	b    []byte
	rng  *vRNG
	mode int
}

func (r *chunkReader) Read(p []byte) (int, error) {
	if len(r.b) == 0 {
		return 0, io.EOF
	}
	k := 1
	switch r.mode {
	case 0:
		k = 1
	case 1:
		k = r.rng.Range(1, 7)
	case 2:
		k = len(r.b)
	default:
		k = r.rng.Range(1, 40)
	}
	if k > len(p) {
		k = len(p)
	}
	if k > len(r.b) {
		k = len(r.b)
	}
	copy(p, r.b[:k])
	r.b = r.b[k:]
	return k, nil
}

var hostileStrings = []string{"flir", "lepton3", "lepton3.5", "boson", "1.2.3", "true", "false", "yes", "no", "null", "~", "1.2", "12", "0x1F", "1e3", "a: b", "a:b", "#c", "a #c", " lead", "trail ",
	"q\"uote", "it's", "tab\there", "ünïcödé-火", "- x", "[1]", "{a}", "*star", "&anchor", "!tag", "|", ">", "%dir", "@at", "`tick", "", "0", "-", "?", ":", ",", "\\n", "a\\b", "2020-01-01", "12:30", ".inf", "0o7", "+1"}

func randomDesc(rng *vRNG) hdrDesc {
	d := hdrDesc{ResX: rng.PickInt(160, 320, 640, 16, 1), ResY: rng.PickInt(120, 256, 512, 12, 1), FPS: rng.PickInt(9, 1, 30, 60)}
	d.FrameSize = 2 * d.ResX * d.ResY
	if rng.Bool() {
		d.FrameSize += 640
	}
	d.Brand = hostileStrings[rng.Intn(len(hostileStrings))]
	d.Model = hostileStrings[rng.Intn(len(hostileStrings))]
	d.Firmware = hostileStrings[rng.Intn(len(hostileStrings))]
	if rng.Chance(30) {
		d.Brand, d.Model = "flir", "lepton3"
	}
	if rng.Chance(20) {
		// random printable single-line string up to 255 bytes
		n := rng.Range(1, 255)
		b := make([]byte, n)
		for i := range b {
			b[i] = byte(rng.Range(0x20, 0x7e))
		}
		d.Firmware = string(b)
	}
	switch rng.Intn(8) {
	case 0:
		d.Serial = 0
	case 1:
		d.Serial = uint64(rng.Intn(1 << 20))
	case 2:
		d.Serial = 1<<31 - 1
	case 3:
		d.Serial = 1 << 31
	case 4:
		d.Serial = 1<<32 - 1
	case 5:
		d.Serial = math.MaxInt64
	case 6:
		d.Serial = math.MaxInt64 + 1 + uint64(rng.Intn(1000))
	default:
		d.Serial = rng.U64()
	}
	return d
}

func fitsInt(v uint64) bool { return v <= uint64(^uint(0)>>1) }

func TestVerif_C14Header(t *testing.T) {
	c := vStart(t, "C14", "TestVerif_C14Header")
	defer c.Finish()
	n := c.N(6000, 600000)
	for idx := int64(0); idx < n; idx++ {
		if !c.Mine(idx) {
			continue
		}
		rng := c.RNG(idx)
		d := randomDesc(rng)
		enc := d.encode()
		sentinel := []byte{0xde, 0xad, byte(idx), 0x0a, 0x0a, 'c', 'l', 'e', 'a', 'r'}
		mode := rng.Intn(4)
		c.Case(idx, func() interface{} {
			return map[string]interface{}{"description": fmt.Sprintf("%+v", d), "encoded": string(enc), "read_mode": mode}
		}, func() {
			// (1) round trip + nothing consumed beyond the blank line
			br := bufio.NewReader(&chunkReader{b: append(append([]byte{}, enc...), sentinel...), rng: rng, mode: mode})
			h, err := ReadHeaderInfo(br)
			if err != nil || h == nil {
				c.Violation("header-rejected", "", fmt.Sprintf("ReadHeaderInfo failed on a well-formed header: %v", err))
				return
			}
			rest := make([]byte, len(sentinel))
			if _, err := io.ReadFull(br, rest); err != nil || !bytes.Equal(rest, sentinel) {
				c.Violation("consumed-beyond-blank-line", "", fmt.Sprintf("bytes after the header read back as %x (err %v), sent %x", rest, err, sentinel))
				return
			}
			got := hdrDesc{h.ResX(), h.ResY(), h.FPS(), h.FrameSize(), h.Brand(), h.Model(), h.Firmware(), uint64(h.CameraSerial())}
			if got != d {
				field, class := "", ""
				switch {
				case got.Serial != d.Serial:
					field = "CameraSerial"
					if !fitsInt(d.Serial) {
						class = "field CameraSerial; value does not fit Go int"
					} else {
						class = "field CameraSerial"
					}
				case got.Firmware != d.Firmware:
					field, class = "Firmware", "field Firmware"
				case got.Brand != d.Brand:
					field, class = "Brand", "field Brand"
				case got.Model != d.Model:
					field, class = "Model", "field Model"
				default:
					field, class = "numeric", "numeric field"
				}
				c.Violation("header-roundtrip", class, fmt.Sprintf("field %s: sent %+v, parsed %+v", field, d, got))
				// keep going: truncation behaviour is still worth checking
			}
			// (2) every strict prefix followed by EOF must give (nil, error), promptly
			for cut := 0; cut < len(enc); cut++ {
				done := make(chan struct{})
				var hh *HeaderInfo
				var e error
				go func() {
					hh, e = ReadHeaderInfo(bufio.NewReader(&chunkReader{b: append([]byte{}, enc[:cut]...), rng: vNewRNG(uint64(cut)), mode: cut % 4}))
					close(done)
				}()
				select {
				case <-done:
				case <-time.After(20 * time.Second):
					c.Violation("truncated-header-hangs", "", fmt.Sprintf("header cut after %d of %d bytes: no result within 20 s", cut, len(enc)))
					return
				}
				if hh != nil || e == nil {
					c.Violation("truncated-header-accepted", "", fmt.Sprintf("header cut after %d of %d bytes returned (%v, %v), want (nil, error)", cut, len(enc), hh, e))
					return
				}
				c.Count("truncation_points", 1)
			}
			c.Count("headers", 1)
			c.Seen("read_modes", fmt.Sprint(mode))
			if fitsInt(d.Serial) {
				c.Count("serials_within_int", 1)
			} else {
				c.Count("serials_outside_int", 1)
			}
			c.Nontrivial(vNewHash().Bytes(enc).Int(mode).Sum())
			c.Sample("header", func() interface{} {
				return map[string]interface{}{"description": fmt.Sprintf("%+v", d), "encoded": string(enc)}
			})
		})
	}
}
