//go:build verif
// +build verif

package motion

// C12 - sinks see writes only inside start..stop; faults never crash the
// pipeline; after any failure later motion is recorded normally.
// Per-sink protocol automaton + panic capture + bounded-progress check, over
// every short event sequence x every single-fault placement (fault
// enumeration) and random multi-fault scripts.

import (
	"fmt"
	"testing"
	"time"
)

const c12Stride = 512

var c12Alphabet = []byte{evMotion, evFrame, evBad, evReset, evSnap}

func c12Configs() []fsmConfig {
	var out []fsmConfig
	for _, constant := range []bool{true, false} {
		for mx := 0; mx <= 2; mx++ {
			for trig := 0; trig <= 2; trig++ {
				mn := 1
				if mn > mx {
					mn = mx
				}
				out = append(out, fsmConfig{FPS: 1, Preview: 1, Trigger: trig, Min: mn, Max: mx, Constant: constant})
			}
		}
	}
	return out
}

// c12Suffix returns the fault-free recovery events and the offsets (relative
// to the suffix start) of the burst start and of the expected trigger.
func c12Suffix(cfg fsmConfig) (evs []fsmEvent, burstAt, trigAt int) {
	for i := 0; i < cfg.maxF()+2; i++ {
		evs = append(evs, fsmEvent{Kind: evFrame})
	}
	burstAt = len(evs)
	k := cfg.Trigger
	if k < 1 {
		k = 1
	}
	trigAt = burstAt + k - 1
	for i := 0; i < k+1; i++ {
		evs = append(evs, fsmEvent{Kind: evMotion})
	}
	for i := 0; i < cfg.maxF()+cfg.minF()+2; i++ {
		evs = append(evs, fsmEvent{Kind: evFrame})
	}
	return
}

type c12Fault struct {
	Sink int
	Op   byte
	N    int
}

func (f c12Fault) String() string {
	return fmt.Sprintf("%s sink: %c call #%d fails", sinkNames[f.Sink], f.Op, f.N)
}

// c12Execute runs script + recovery suffix on the real processor.
// c12RequestInside makes c12Execute issue a second test-recording request while the test
// sink's StartRecording is running (set around single cases; the harness is single-threaded).
var c12RequestInside bool

func c12Execute(cfg fsmConfig, script []fsmEvent, fault func(sink int, op byte, n int) bool) (r *fsmRun, nScript int) {
	r = newFsmRun(cfg)
	r.requestInsideTestStart = c12RequestInside
	r.fault = fault
	for _, e := range script {
		r.step(e)
	}
	nScript = len(r.steps)
	r.fault = nil
	suffix, _, _ := c12Suffix(cfg)
	for _, e := range suffix {
		r.step(e)
	}
	return
}

// c12Judge applies the C12 oracle. class describes the fault placement.
func c12Judge(c *vCtx, r *fsmRun, nScript int, class string) {
	cfg := r.cfg
	for si, s := range r.steps {
		if s.Panic != "" {
			c.Violation("panic", fmt.Sprintf("event %c; %s", s.Ev.Kind, class), fmt.Sprintf("frame processing panicked at step %d (%c): %s", si, s.Ev.Kind, s.Panic))
			return
		}
	}
	if r.blockedRequests > 0 {
		c.Violation("test-recording-request-blocks", class, fmt.Sprintf("%d test-recording request(s) did not return within 10 s: the request path stalls (frame processing and the service share that path)", r.blockedRequests))
		return
	}
	for k := 0; k < 3; k++ {
		if k == sinkConst && !cfg.Constant {
			if n := len(collectOps(r.steps, k)); n > 0 {
				c.Violation("disabled-sink-used", sinkNames[k]+" sink", fmt.Sprintf("%d calls on the continuous sink although it is disabled", n))
			}
			continue
		}
		_, viol := protocolScan(r.steps, k)
		if len(viol) > 0 {
			kind := "write-while-closed"
			if viol[0][:5] == "start" {
				kind = "start-while-open"
			}
			c.Violation(kind, sinkNames[k]+" sink; "+c12Context(r.steps, viol[0]), sinkNames[k]+" sink: "+viol[0]+" ["+class+"]")
			return
		}
	}
	// bounded progress: the fault-free suffix must produce one normal recording
	_, burstAt, trigAt := c12Suffix(cfg)
	burstAt += nScript
	trigAt += nScript
	v := newFsmView(r)
	v.from = nScript
	// recording still open when the burst begins?
	for _, rec := range v.recs {
		if rec.StartStep < burstAt && (rec.StopStep < 0 || rec.StopStep >= burstAt) {
			c.Violation("recording-stuck-open", class, fmt.Sprintf("recording started at step %d still open after %d motionless fault-free frames", rec.StartStep, cfg.maxF()+2))
			return
		}
	}
	n := 0
	for _, rec := range v.recs {
		if rec.StartStep >= burstAt {
			n++
			if n == 1 && rec.StartStep != trigAt {
				c.Violation("recovery-start-misplaced", class, fmt.Sprintf("after the faults a %d-frame motion burst from step %d started a recording at step %d, expected step %d", cfg.Trigger+1, burstAt, rec.StartStep, trigAt))
				return
			}
		}
	}
	if n == 0 {
		c.Violation("no-recording-after-fault", class, fmt.Sprintf("after the faults a fault-free motion burst at steps %d.. did not start a recording", burstAt))
		return
	}
	for _, o := range []fsmOracle{oracleC01, oracleC02, oracleC03} {
		for _, x := range o(v) {
			c.Violation("recovery-"+x.kind, class, x.detail)
			return
		}
	}
	c.Count("recoveries_checked", 1)
}

func c12Context(steps []stepRec, viol string) string {
	// classify what preceded the violation for the known-finding matcher
	var si int
	// find "at step N"
	for i := 0; i+8 < len(viol); i++ {
		if viol[i:i+8] == "at step " {
			fmt.Sscanf(viol[i+8:], "%d", &si)
		}
	}
	for j := si - 1; j >= 0 && j >= si-1; j-- {
		switch steps[j].Ev.Kind {
		case evBad:
			return "after bad frame"
		case evSnap:
			return "after test-recording request"
		}
	}
	for j := si; j >= 0; j-- {
		for k := 0; k < 3; k++ {
			for _, op := range steps[j].Ops[k] {
				if op.Err {
					return fmt.Sprintf("after failing %c on %s sink", op.Op, sinkNames[k])
				}
			}
		}
		if steps[j].Ev.Kind == evBad {
			return "after bad frame"
		}
		if steps[j].Ev.Kind == evSnap {
			return "after test-recording request"
		}
	}
	return "other"
}

func collectOps(steps []stepRec, k int) []sinkOp {
	var out []sinkOp
	for _, s := range steps {
		out = append(out, s.Ops[k]...)
	}
	return out
}

func c12Desc(cfg fsmConfig, script []fsmEvent, class string, fault func(int, byte, int) bool) func() interface{} {
	return func() interface{} {
		r, n := c12Execute(cfg, script, fault)
		return map[string]interface{}{"config": cfg.String(), "script": scriptString(script), "fault": class, "script_steps": n,
			"legend": "m=motion frame f=frame b=bad frame r=reset s=test-recording request; then fault-free recovery suffix",
			"trace":  traceString(r.steps, 60)}
	}
}

func TestVerif_C12(t *testing.T) {
	c := vStart(t, "C12", "TestVerif_C12")
	defer c.Finish()
	// a fault or request that wedges the frame loop (a lock never released, a channel nobody
	// reads) shows as a case that never returns
	c.CaseWatchdog(120 * time.Second)
	cfgs := c12Configs()
	maxLen := int(c.N(5, 8)) // length 8 (thorough) only on the configurations with the continuous recorder on
	group := int64(0)
	mineGroup := func(g int64) bool {
		if c.OnlyCase >= 0 {
			return g == c.OnlyCase/c12Stride
		}
		return int(g%int64(c.Shards)) == c.Shard
	}
	// Part 1: fault enumeration over all sequences of length 1..maxLen
	for L := 1; L <= maxLen; L++ {
		total := 1
		for i := 0; i < L; i++ {
			total *= len(c12Alphabet)
		}
		for _, cfg := range cfgs {
			if L == 8 && !cfg.Constant {
				continue
			}
			for n := 0; n < total; n++ {
				g := group
				group++
				if !mineGroup(g) {
					continue
				}
				script := make([]fsmEvent, L)
				x := n
				for i := 0; i < L; i++ {
					script[i] = fsmEvent{Kind: c12Alphabet[x%len(c12Alphabet)]}
					x /= len(c12Alphabet)
				}
				// fault-free run: fixes the number of sink calls inside the script
				var base *fsmRun
				var nScript int
				c.Guarded(g*c12Stride, c12Desc(cfg, script, "fault-free", nil), func() { base, nScript = c12Execute(cfg, script, nil) })
				var placements []c12Fault
				var counts [3][4]int
				for si := 0; si < nScript; si++ {
					for k := 0; k < 3; k++ {
						for _, op := range base.steps[si].Ops[k] {
							if op.Op == opCheck && k != sinkMotion {
								continue
							}
							placements = append(placements, c12Fault{k, op.Op, counts[k][opIdx(op.Op)]})
							counts[k][opIdx(op.Op)]++
						}
					}
				}
				if len(placements)+1 >= c12Stride {
					c.Inconclusive(fmt.Sprintf("script %s has %d sink calls, more than the stride", scriptString(script), len(placements)))
					placements = placements[:c12Stride-2]
				}
				for fi := -1; fi < len(placements); fi++ {
					idx := g*c12Stride + int64(fi+1)
					if c.OnlyCase >= 0 && idx != c.OnlyCase {
						continue
					}
					var fault func(int, byte, int) bool
					class := "fault-free"
					if fi >= 0 {
						f := placements[fi]
						fault = func(sink int, op byte, n int) bool { return sink == f.Sink && op == f.Op && n == f.N }
						class = f.String()
					}
					c.Case(idx, c12Desc(cfg, script, class, fault), func() {
						r := base
						ns := nScript
						if fi >= 0 {
							r, ns = c12Execute(cfg, script, fault)
						}
						c12Judge(c, r, ns, class)
						c.Count("runs", 1)
						if fi >= 0 {
							c.Count("single_fault_runs", 1)
							c.Seen("fault_kinds", fmt.Sprintf("%s/%c", sinkNames[placements[fi].Sink], placements[fi].Op))
						}
						c.Nontrivial(vNewHash().Str(cfg.String()).U64(traceHash(r.steps)).Sum())
						if fi >= 0 && L == maxLen {
							c.Sample("single-fault", func() interface{} {
								return map[string]interface{}{"config": cfg.String(), "script": scriptString(script), "fault": class, "trace": traceString(r.steps[:ns], 12)}
							})
						}
					})
				}
			}
		}
	}
	c.SetExhaustive(true)
	// Part 2: random long scripts, multi-fault (per-call fault probability)
	nrand := c.N(4000, 1500000)
	for s := int64(0); s < nrand; s++ {
		g := group
		group++
		if !mineGroup(g) {
			continue
		}
		idx := g * c12Stride
		rng := c.RNG(idx)
		cfg := fsmRandomConfig(rng)
		if rng.Chance(50) {
			cfg = cfgs[rng.Intn(len(cfgs))]
		}
		cfg.Constant = rng.Chance(60)
		if cfg.Max > 30 {
			cfg.Max, cfg.Min = 3, 1
		}
		n := rng.Range(8, 400)
		script := make([]fsmEvent, n)
		pBad, pReset, pSnap := rng.PickInt(0, 2, 10), rng.PickInt(0, 2, 10), rng.PickInt(0, 1, 5, 20)
		pm := rng.PickInt(20, 50, 90)
		for i := range script {
			e := fsmEvent{Kind: evFrame}
			x := rng.Intn(100)
			switch {
			case x < pBad:
				e.Kind = evBad
			case x < pBad+pReset:
				e.Kind = evReset
			case x < pBad+pReset+pSnap:
				e.Kind = evSnap
			case rng.Chance(pm):
				e.Kind = evMotion
			}
			e.WinClosed = rng.Chance(5)
			script[i] = e
		}
		rate := rng.PickInt(1, 3, 10, 30)
		fseed := rng.U64()
		mkFault := func() func(int, byte, int) bool {
			fr := vNewRNG(fseed)
			return func(sink int, op byte, n int) bool { return fr.Intn(100) < rate }
		}
		class := fmt.Sprintf("random faults %d%% per call", rate)
		inside := idx%3 == 0
		if inside {
			class += "; a second request lands inside the test recorder's start"
		}
		c.Case(idx, c12Desc(cfg, script, class, mkFault()), func() {
			c12RequestInside = inside
			r, ns := c12Execute(cfg, script, mkFault())
			c12RequestInside = false
			c.Count("requests_inside_test_start", int64(r.requestsInsideTestStart))
			c12Judge(c, r, ns, class)
			c.Count("runs", 1)
			c.Count("random_multi_fault_runs", 1)
			nf := 0
			for _, st := range r.steps[:ns] {
				for k := 0; k < 3; k++ {
					for _, op := range st.Ops[k] {
						if op.Err {
							nf++
						}
					}
				}
			}
			c.Count("random_faults_injected", int64(nf))
			c.Nontrivial(vNewHash().Str(cfg.String()).U64(traceHash(r.steps)).Sum())
		})
	}
}
