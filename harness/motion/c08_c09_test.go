//go:build verif
// +build verif

package motion

// C08 - edge-border and sub-threshold pixels never influence detection
//       (paired-execution comparator).
// C09 - no detection during/after FFC; no comparison across an FFC or reset
//       (online suppression assertion + paired-history comparator).

import (
	"fmt"
	"testing"
	"time"

	config "github.com/TheCacophonyProject/go-config"
	"github.com/TheCacophonyProject/go-cptv/cptvframe"
	"github.com/TheCacophonyProject/thermal-recorder/recorder"
	"github.com/TheCacophonyProject/window"
)

// ---------------------------------------------------------------- streams with FFC

// ffcStream generates n frames with a moving hot block, FFC events, irregular
// TimeOn steps and optional resets.
func ffcStream(rng *vRNG, c detConfig, n int, pFFC, pReset int, base uint16) []detFrame {
	out := []detFrame{}
	t := time.Duration(rng.PickInt(0, 1, 5, 11, 60)) * time.Second
	last := time.Duration(0)
	if rng.Chance(10) {
		last = t + 3*time.Second // "negative" age
	}
	steps := []time.Duration{time.Second / 9, time.Second / 9, time.Second / 3, time.Second, 2 * time.Second, 3300 * time.Millisecond, 5 * time.Second, 10 * time.Second}
	step := steps[rng.Intn(len(steps))]
	bx, by := rng.Intn(c.W), rng.Intn(c.H)
	scene := make([][]uint16, c.H)
	for y := range scene {
		scene[y] = make([]uint16, c.W)
		for x := range scene[y] {
			scene[y][x] = base + uint16(rng.Intn(40))
		}
	}
	for i := 0; i < n; i++ {
		if pReset > 0 && rng.Intn(100) < pReset {
			out = append(out, detFrame{Reset: true})
		}
		if rng.Chance(15) {
			step = steps[rng.Intn(len(steps))]
		}
		t += step
		if rng.Intn(100) < pFFC {
			last = t - time.Duration(rng.Intn(3))*time.Second
			if rng.Chance(10) {
				last = t + time.Second
			}
		}
		// scene noise + moving block
		pix := clonePix(scene)
		for k := 0; k < 2; k++ {
			y, x := rng.Intn(c.H), rng.Intn(c.W)
			scene[y][x] = base + uint16(rng.Intn(40))
		}
		if rng.Chance(70) {
			bx = (bx + rng.Range(0, 2)) % c.W
			by = (by + rng.Range(0, 1)) % c.H
		}
		for dy := 0; dy < 2; dy++ {
			for dx := 0; dx < 2; dx++ {
				pix[(by+dy)%c.H][(bx+dx)%c.W] = base + 600 + uint16(rng.Intn(50))
			}
		}
		out = append(out, detFrame{Pix: pix, TimeOn: t, LastFFC: last})
	}
	return out
}

func randomPixLike(rng *vRNG, f detFrame, base uint16) detFrame {
	g := detFrame{TimeOn: f.TimeOn, LastFFC: f.LastFFC, Reset: f.Reset, FFCState: f.FFCState}
	if f.Reset {
		return g
	}
	g.Pix = clonePix(f.Pix)
	for y := range g.Pix {
		for x := range g.Pix[y] {
			switch rng.Intn(4) {
			case 0:
				g.Pix[y][x] = uint16(rng.Intn(65536))
			case 1:
				g.Pix[y][x] = base + uint16(rng.Intn(1500))
			}
		}
	}
	return g
}

func TestVerif_C09(t *testing.T) {
	c := vStart(t, "C09", "TestVerif_C09")
	defer c.Finish()
	n := c.N(40000, 3000000)
	for idx := int64(0); idx < n; idx++ {
		if !c.Mine(idx) {
			continue
		}
		rng := c.RNG(idx)
		dynamic := rng.Chance(50)
		cfg := detRandomConfig(rng, dynamic)
		cfg.Delta = uint16(rng.PickInt(1, 30, 100))
		cfg.Count = rng.PickInt(1, 1, 2, 3, 0) // count-thresh 0 is legal: every comparable frame is motion - but never an FFC frame
		cfg.Temp = uint16(rng.PickInt(0, 2900, 3000))
		cfg.Gap = rng.PickInt(1, 2, 3, 5, 45)
		base := uint16(rng.PickInt(2800, 3000, 3300))
		via := idx%3 == 0
		// common suffix F.S: starts with an FFC-affected frame, or is a reset (fixed threshold only)
		nS := rng.Range(3, 70)
		suffix := ffcStream(rng, cfg, nS, rng.PickInt(0, 3, 10), 0, base)
		useReset := !dynamic && rng.Chance(35)
		nP := rng.Range(0, 60)
		pfx := ffcStream(rng, cfg, nP, rng.PickInt(0, 5, 15), rng.PickInt(0, 0, 4), base)
		// re-time the suffix so that TimeOn continues after the prefix
		var tEnd, lastFFC time.Duration
		for _, f := range pfx {
			if !f.Reset {
				tEnd, lastFFC = f.TimeOn, f.LastFFC
			}
		}
		shift := tEnd + time.Second - suffix[0].TimeOn
		for i := range suffix {
			suffix[i].TimeOn += shift
			suffix[i].LastFFC += shift
		}
		if useReset {
			// keep the telemetry of the suffix free of a fresh FFC at its start unless generated
			suffix = append([]detFrame{{Reset: true}}, suffix...)
		} else {
			// make the first suffix frame FFC-affected
			suffix[0].LastFFC = suffix[0].TimeOn - time.Duration(rng.Intn(9))*time.Second
			for i := 1; i < len(suffix); i++ {
				if suffix[i].LastFFC < suffix[0].LastFFC {
					suffix[i].LastFFC = suffix[0].LastFFC
				}
			}
		}
		_ = lastFFC
		// alternative prefix: same telemetry, different pixel content; or (reset case) different length
		var pfx2 []detFrame
		diffLen := useReset && rng.Chance(40)
		if diffLen {
			// both prefixes must end in >= 2 unaffected frames
			mk := func(k int) []detFrame {
				p := ffcStream(rng, cfg, k, 0, 0, base)
				for i := range p {
					p[i].LastFFC = 0
					p[i].TimeOn = time.Minute + time.Duration(i)*time.Second
				}
				return p
			}
			pfx = mk(rng.Range(2, 40))
			pfx2 = mk(rng.Range(2, 40))
		} else {
			pfx2 = make([]detFrame, len(pfx))
			for i := range pfx {
				pfx2[i] = randomPixLike(rng, pfx[i], base)
			}
		}
		if idx%16 == 5 {
			// crafted pair for the dynamic threshold: prefix A lets the per-pixel background weights
			// build up (scene 60 above the seeded background for 260 frames), prefix B keeps them at
			// zero; after the FFC the scene warms by 1 per frame. Everything the detector remembers
			// about the background must start afresh after the FFC, so both runs must agree.
			cfg = detConfig{W: 6, H: 5, FPS: 9, Edge: rng.Range(0, 1), Gap: 5, Count: 1, Delta: 1, Temp: 2900, OneDiff: true, Dynamic: true, PreviewFrames: 1}
			dynamic, useReset, diffLen, via = true, false, false, idx%32 == 5
			uni := func(v uint16, t time.Duration, ffc time.Duration) detFrame {
				pix := make([][]uint16, cfg.H)
				for y := range pix {
					pix[y] = make([]uint16, cfg.W)
					for x := range pix[y] {
						pix[y][x] = v
					}
				}
				return detFrame{Pix: pix, TimeOn: t, LastFFC: ffc}
			}
			pfx, pfx2, suffix = nil, nil, nil
			t := time.Minute
			for i := 0; i < 260; i++ {
				t += time.Second / 9
				a, b := uint16(3060), uint16(3000)
				if i == 0 {
					a = 3000
				}
				pfx = append(pfx, uni(a, t, 0))
				pfx2 = append(pfx2, uni(b, t, 0))
			}
			ffcAt := t + time.Second/9
			for i := 0; i < 3; i++ {
				t += time.Second / 9
				suffix = append(suffix, uni(3150, t, ffcAt))
			}
			t += 11 * time.Second
			for k := 0; k < 45; k++ {
				t += time.Second / 9
				suffix = append(suffix, uni(uint16(3200+k), t, ffcAt))
			}
			if idx%32 == 21 {
				// ... and the same with a camera reset right before the FFC: the background is then
				// seeded from scratch by the first frame after the period, and so is everything
				// the detector knows about it
				suffix = append([]detFrame{{Reset: true}}, suffix...)
				via = idx%64 == 21
				c.Count("crafted_weight_pairs_with_reset", 1)
			}
			c.Count("crafted_weight_pairs", 1)
		}
		ffcStated := 0
		if idx%4 >= 2 {
			// the telemetry also carries the camera's FFC state word; the rule is the 10 s one alone
			ffcStated = paintFFCStates(pfx, int(idx%4-2)) + paintFFCStates(pfx2, int(idx%4-2)) + paintFFCStates(suffix, int(idx%4-2))
		}
		badAt := -1
		c.Case(idx, func() interface{} {
			all := append(append([]detFrame{}, pfx...), suffix...)
			return map[string]interface{}{"config": cfg.String(), "prefix_len": len(pfx), "alt_prefix_len": len(pfx2), "suffix_starts_with_reset": useReset,
				"history": detStreamDesc(cfg, all, badAt)()}
		}, func() {
			a, b := newDetDriver(cfg, via), newDetDriver(cfg, via)
			c.Count("frames_with_ffc_state_running", int64(ffcStated))
			prevAff := false
			for i := range pfx {
				got := a.feed(&pfx[i])
				if !pfx[i].Reset {
					aff := pfx[i].affected()
					if got && (aff || prevAff) {
						badAt = i
						c.Violation("motion-during-or-right-after-ffc", fmt.Sprintf("dynamic=%v", cfg.Dynamic), fmt.Sprintf("frame %d: motion reported, affected=%v previous-affected=%v", i, aff, prevAff))
						return
					}
					if aff || prevAff {
						c.Count("suppressed_window_frames", 1)
					}
					prevAff = aff
				}
			}
			prevB := false
			for i := range pfx2 {
				b.feed(&pfx2[i])
				if !pfx2[i].Reset {
					prevB = pfx2[i].affected()
				}
			}
			_ = prevB
			motionAfter := 0
			h := vNewHash().Str(cfg.String())
			for i := range suffix {
				f := &suffix[i]
				ga, gb := a.feed(f), b.feed(f)
				if f.Reset {
					continue
				}
				aff := f.affected()
				if c.Verbose {
					da, db := a.detector(), b.detector()
					c.Logf("suffix %d aff=%v: A motion=%v thresh=%d bgFrames=%d | B motion=%v thresh=%d bgFrames=%d", i, aff, ga, da.tempThresh, da.backgroundFrames, gb, db.tempThresh, db.backgroundFrames)
				}
				if ga && (aff || prevAff) {
					badAt = len(pfx) + i
					c.Violation("motion-during-or-right-after-ffc", fmt.Sprintf("dynamic=%v", cfg.Dynamic), fmt.Sprintf("suffix frame %d: motion reported, affected=%v previous-affected=%v", i, aff, prevAff))
					return
				}
				if aff || prevAff {
					c.Count("suppressed_window_frames", 1)
				}
				prevAff = aff
				if ga != gb {
					badAt = len(pfx) + i
					kind := "detection-depends-on-frames-before-ffc"
					if useReset {
						kind = "detection-depends-on-frames-before-reset"
					}
					c.Violation(kind, fmt.Sprintf("dynamic=%v onediff=%v gap=%d", cfg.Dynamic, cfg.OneDiff, cfg.Gap),
						fmt.Sprintf("suffix frame %d: %v with prefix A, %v with prefix B (prefixes differ only in pixel content/length before the FFC/reset)", i, ga, gb))
					return
				}
				if ga {
					motionAfter++
				}
				h.Bool(ga)
				pixHash(h, f.Pix)
			}
			c.Count("history_pairs", 1)
			c.Count("motion_frames_after_period", int64(motionAfter))
			if useReset {
				c.Count("pairs_with_reset", 1)
			} else {
				c.Count("pairs_with_ffc", 1)
			}
			c.Seen("classes", fmt.Sprintf("dyn=%v reset=%v onediff=%v gap=%d", cfg.Dynamic, useReset, cfg.OneDiff, cfg.Gap))
			if motionAfter > 0 {
				c.Nontrivial(h.Sum())
				c.Sample("pair", func() interface{} {
					return map[string]interface{}{"config": cfg.String(), "prefix_len": len(pfx), "suffix_len": len(suffix), "reset": useReset, "motion_frames_after": motionAfter}
				})
			}
		})
	}
}

// ---------------------------------------------------------------- C08

type c08Run struct {
	mp     *MotionProcessor
	flag   *motionFlag
	sink   *traceSink
	frame  *cptvframe.Frame
	cfg    detConfig
	nFrame int
}

// traceSink records the motion-sink trace (recording boundaries).
type traceSink struct {
	h     *vHash
	ops   int
	recs  int
	cur   int
	trace []byte
}

func (s *traceSink) StopRecording() error {
	s.h.Int('P').Int(s.cur)
	s.trace = append(s.trace, 'P')
	return nil
}
func (s *traceSink) StartRecording(bg *cptvframe.Frame, th uint16) error {
	s.h.Int('S').Int(s.cur).Int(int(th))
	s.trace = append(s.trace, 'S')
	s.recs++
	return nil
}
func (s *traceSink) WriteFrame(f *cptvframe.Frame) error {
	s.h.Int('W').Int(f.Status.FrameCount)
	s.trace = append(s.trace, 'W')
	return nil
}
func (s *traceSink) CheckCanRecord() error { return nil }

func newC08Run(cfg detConfig) *c08Run {
	r := &c08Run{cfg: cfg, flag: &motionFlag{}, sink: &traceSink{h: vNewHash()}, frame: cptvframe.NewFrame(cfg.cam())}
	mc := cfg.motionConfig()
	mc.TriggerFrames = 1
	prev := 1
	if cfg.Dynamic && cfg.PreviewFrames == 0 {
		prev = 0
	}
	rc := &recorder.RecorderConfig{MinSecs: 1, MaxSecs: 3, PreviewSecs: prev, Window: window.Window{NoWindow: true}}
	r.mp = NewMotionProcessor(nil, &mc, rc, &config.Location{}, r.flag, r.sink, cfg.cam(), nil, new(recorder.NoWriteRecorder))
	return r
}

func (r *c08Run) feed(f *detFrame) bool {
	if f.Reset {
		r.mp.Reset(r.cfg.cam())
		return false
	}
	f.toFrame(r.frame, r.nFrame)
	r.sink.cur = r.nFrame
	r.nFrame++
	r.flag.hit = false
	r.mp.ProcessFrame(r.frame)
	return r.flag.hit
}

func TestVerif_C08(t *testing.T) {
	c := vStart(t, "C08", "TestVerif_C08")
	defer c.Finish()
	n := c.N(40000, 3000000)
	for idx := int64(0); idx < n; idx++ {
		if !c.Mine(idx) {
			continue
		}
		rng := c.RNG(idx)
		dynamic := rng.Chance(50)
		cfg := detRandomConfig(rng, dynamic)
		cfg.Delta = uint16(rng.PickInt(1, 30, 100))
		cfg.Count = rng.PickInt(1, 1, 2, 3)
		cfg.Gap = rng.PickInt(1, 2, 3, 5)
		base := uint16(rng.PickInt(2800, 3000, 3300))
		if !dynamic {
			cfg.Temp = uint16(rng.PickInt(2900, 3000, 3100, 3400))
		}
		subThreshold := !dynamic && (cfg.Edge == 0 || rng.Chance(50))
		nf := rng.Range(5, 70)
		var stream []detFrame
		if rng.Chance(60) {
			stream = ffcStream(rng, cfg, nf, rng.PickInt(0, 3, 8), rng.PickInt(0, 0, 3), base)
		} else {
			stream = detStream(rng, cfg, nf, rng.PickInt(0, 3))
		}
		blob := idx%5 == 2
		if blob {
			// a scene wholly at or below the threshold (border included) with a blinking warm
			// blob: the variant's border / cold pixels must not decide which path runs
			stream = blobStream(rng, cfg, rng.Range(6, 40), rng.PickInt(0, 0, 5))
		}
		// variant
		variant := make([]detFrame, len(stream))
		changed := 0
		for i, f := range stream {
			variant[i] = f
			if f.Reset {
				continue
			}
			variant[i].Pix = clonePix(f.Pix)
			for y := 0; y < cfg.H; y++ {
				for x := 0; x < cfg.W; x++ {
					if subThreshold {
						if f.Pix[y][x] <= cfg.Temp && rng.Chance(60) {
							variant[i].Pix[y][x] = uint16(rng.Intn(int(cfg.Temp) + 1))
							if rng.Chance(10) {
								variant[i].Pix[y][x] = cfg.Temp
							}
							changed++
						}
					} else if !cfg.interior(y, x) && rng.Chance(70) {
						variant[i].Pix[y][x] = uint16(rng.PickInt(0, 65535, rng.Intn(65536), int(base)+rng.Intn(2000)))
						changed++
					}
				}
			}
		}
		mode := "border"
		if subThreshold {
			mode = "sub-threshold"
		}
		badAt := -1
		c.Case(idx, func() interface{} {
			return map[string]interface{}{"config": cfg.String(), "variant": mode, "base_stream": detStreamDesc(cfg, stream, badAt)(), "variant_stream": detStreamDesc(cfg, variant, badAt)()}
		}, func() {
			a, b := newC08Run(cfg), newC08Run(cfg)
			motion := 0
			for i := range stream {
				ga, gb := a.feed(&stream[i]), b.feed(&variant[i])
				if stream[i].Reset {
					continue
				}
				if ga != gb {
					badAt = i
					c.Violation("detection-influenced", mode+fmt.Sprintf(" dynamic=%v", cfg.Dynamic), fmt.Sprintf("frame %d: base stream %v, variant (only %s pixels differ) %v", i, ga, mode, gb))
					return
				}
				if ga {
					motion++
				}
				if cfg.Dynamic {
					da, db := a.mp.motionDetector, b.mp.motionDetector
					if da.tempThresh != db.tempThresh {
						badAt = i
						c.Violation("threshold-influenced", mode, fmt.Sprintf("frame %d: dynamic threshold %d vs %d", i, da.tempThresh, db.tempThresh))
						return
					}
					for y := cfg.Edge; y < cfg.H-cfg.Edge; y++ {
						for x := cfg.Edge; x < cfg.W-cfg.Edge; x++ {
							if da.background.Pix[y][x] != db.background.Pix[y][x] {
								badAt = i
								c.Violation("background-influenced", mode, fmt.Sprintf("frame %d: interior background (%d,%d) %d vs %d", i, y, x, da.background.Pix[y][x], db.background.Pix[y][x]))
								return
							}
						}
					}
				}
			}
			if a.sink.h.Sum() != b.sink.h.Sum() {
				c.Violation("recording-boundaries-influenced", mode, fmt.Sprintf("motion-sink traces differ: %s vs %s", string(a.sink.trace), string(b.sink.trace)))
				return
			}
			c.Count("pairs", 1)
			c.Count("pixels_varied", int64(changed))
			c.Count("motion_frames", int64(motion))
			c.Count("recordings", int64(a.sink.recs))
			c.Count("pairs_"+mode, 1)
			if blob {
				c.Count("blinking_blob_pairs", 1)
			}
			c.Seen("classes", fmt.Sprintf("%s dyn=%v edge=%d", mode, cfg.Dynamic, cfg.Edge))
			if changed > 0 && motion > 0 {
				c.Nontrivial(vNewHash().Str(cfg.String()).U64(a.sink.h.Sum()).Int(changed).U64(uint64(idx)).Sum())
				c.Sample(mode, func() interface{} {
					return map[string]interface{}{"config": cfg.String(), "variant": mode, "frames": len(stream), "pixels_varied": changed, "motion_frames": motion, "recordings": a.sink.recs}
				})
			}
		})
	}
}
