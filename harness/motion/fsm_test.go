//go:build verif
// +build verif

package motion

// C01-C04: recording state machine. One workload family (exhaustive small
// scope + random long scripts), four independent oracles over the same trace;
// VERIF_PROP selects the oracle that decides.

import (
	"fmt"
	"os"
	"testing"
	"time"
)

// ---------------------------------------------------------------- oracles

type fsmView struct {
	cfg   fsmConfig
	steps []stepRec
	recs  []recording
	accOf []int
	// per accepted index: step index
	stepOfAcc []int
	// only recordings started at or after this step are judged (earlier ones
	// still feed "previous end"); used by C12's recovery check
	from int
}

func newFsmView(r *fsmRun) *fsmView {
	v := &fsmView{cfg: r.cfg, steps: r.steps, accOf: r.accOf}
	v.recs, _ = protocolScan(r.steps, sinkMotion)
	for si, s := range r.steps {
		if s.Acc >= 0 {
			v.stepOfAcc = append(v.stepOfAcc, si)
		}
	}
	return v
}

func (v *fsmView) acc(seq int) int {
	if seq < 0 || seq >= len(v.accOf) {
		return -1
	}
	return v.accOf[seq]
}

// lastAccBefore returns the accepted index of the last accepted frame in steps [0, step).
func (v *fsmView) lastAccBefore(step int) int {
	for i := step - 1; i >= 0; i-- {
		if v.steps[i].Acc >= 0 {
			return v.steps[i].Acc
		}
	}
	return -1
}

type vio struct{ kind, class, detail string }

// oracleC01: consecutive, in order, no duplicates across recordings, tiling.
func oracleC01(v *fsmView) []vio {
	var out []vio
	cap := v.cfg.cap()
	lastEnd := -1 // accepted index of last frame of previous recording
	seen := map[int]bool{}
	for ri, rec := range v.recs {
		if len(rec.Seqs) == 0 {
			continue
		}
		if rec.StartStep < v.from {
			lastEnd = v.acc(rec.Seqs[len(rec.Seqs)-1])
			for _, seq := range rec.Seqs {
				seen[v.acc(seq)] = true
			}
			continue
		}
		prev := -2
		for k, seq := range rec.Seqs {
			a := v.acc(seq)
			if a < 0 {
				out = append(out, vio{"non-accepted-frame-written", "motion sink", fmt.Sprintf("recording %d holds frame seq %d which the parser rejected", ri, seq)})
				return out
			}
			if seen[a] {
				out = append(out, vio{"frame-written-twice", "motion sink", fmt.Sprintf("accepted frame %d written again in recording %d", a, ri)})
				return out
			}
			seen[a] = true
			if k > 0 && a != prev+1 {
				out = append(out, vio{"gap-or-disorder", "motion sink", fmt.Sprintf("recording %d: frame %d follows frame %d", ri, a, prev)})
				return out
			}
			prev = a
		}
		first := v.acc(rec.Seqs[0])
		if first <= lastEnd {
			out = append(out, vio{"overlap", "motion sink", fmt.Sprintf("recording %d starts at %d but previous ended at %d", ri, first, lastEnd)})
			return out
		}
		t := v.steps[rec.StartStep].Acc
		if ri > 0 && lastEnd >= 0 && t-(cap-1) <= lastEnd+1 && first != lastEnd+1 {
			out = append(out, vio{"tiling", "motion sink", fmt.Sprintf("recording %d triggered at %d (reach %d frames) starts at %d, previous ended at %d", ri, t, cap, first, lastEnd)})
			return out
		}
		lastEnd = v.acc(rec.Seqs[len(rec.Seqs)-1])
	}
	return out
}

// oracleC02: closed-form first frame of every recording.
func oracleC02(v *fsmView) []vio {
	var out []vio
	cap := v.cfg.cap()
	e := -1
	for ri, rec := range v.recs {
		t := v.steps[rec.StartStep].Acc
		if rec.StartStep < v.from {
			if len(rec.Seqs) > 0 {
				e = v.acc(rec.Seqs[len(rec.Seqs)-1])
			}
			continue
		}
		if t < 0 {
			out = append(out, vio{"start-outside-frame", "motion sink", fmt.Sprintf("recording %d started at step %d which is not an accepted frame", ri, rec.StartStep)})
			return out
		}
		want := t - (cap - 1)
		if want < e+1 {
			want = e + 1
		}
		if want < 0 {
			want = 0
		}
		pre := rec.Seqs[:rec.PreLen]
		if len(pre) == 0 {
			out = append(out, vio{"trigger-frame-not-written", "motion sink", fmt.Sprintf("recording %d triggered at %d wrote nothing in the trigger step", ri, t)})
			return out
		}
		if got := v.acc(pre[0]); got != want {
			out = append(out, vio{"wrong-first-frame", fmt.Sprintf("cap=%d", cap), fmt.Sprintf("recording %d triggered at accepted frame %d starts at %d, expected %d (cap %d, previous end %d)", ri, t, got, want, cap, e)})
			return out
		}
		for k, seq := range pre {
			if v.acc(seq) != want+k {
				out = append(out, vio{"pretrigger-not-consecutive", fmt.Sprintf("cap=%d", cap), fmt.Sprintf("recording %d pre-trigger ids %v (accepted %d at position %d, expected %d)", ri, pre, v.acc(seq), k, want+k)})
				return out
			}
		}
		if last := v.acc(pre[len(pre)-1]); last != t {
			out = append(out, vio{"pretrigger-does-not-end-with-trigger", fmt.Sprintf("cap=%d", cap), fmt.Sprintf("recording %d: writes in trigger step end with %d, trigger is %d", ri, last, t)})
			return out
		}
		if len(rec.Seqs) > 0 {
			e = v.acc(rec.Seqs[len(rec.Seqs)-1])
		}
	}
	return out
}

// oracleC03: recording end = first frame reaching min-secs past last motion or max-secs.
func oracleC03(v *fsmView) []vio {
	var out []vio
	minF, maxF := v.cfg.minF(), v.cfg.maxF()
	for ri, rec := range v.recs {
		t := v.steps[rec.StartStep].Acc
		if t < 0 || rec.StartStep < v.from {
			continue
		}
		// walk accepted frames from the trigger on
		L := t
		ended := false
		for si := rec.StartStep; si < len(v.steps); si++ {
			s := v.steps[si]
			if si > rec.StartStep && (s.Ev.Kind == evBad || s.Ev.Kind == evReset) {
				// must be cut exactly here
				if rec.StopStep != si {
					out = append(out, vio{"not-cut-at-bad-frame-or-reset", string(s.Ev.Kind), fmt.Sprintf("recording %d (trigger %d) met a %c at step %d but stop is at step %d", ri, t, s.Ev.Kind, si, rec.StopStep)})
					return out
				}
				ended = true
				break
			}
			if s.Acc < 0 {
				continue
			}
			i := s.Acc
			if s.Motion && i > t {
				L = i
			}
			limit := L - t + minF
			if limit > maxF {
				limit = maxF
			}
			if limit < 1 {
				limit = 1
			}
			reached := i-t+1 >= limit
			stoppedHere := rec.StopStep == si
			if rec.PreFault && stoppedHere && !reached {
				// storage refused a pre-trigger frame: the recording may be given up early
				// (the trigger frame is still offered), but the limits still bind from above
				ended = true
				break
			}
			if reached != stoppedHere {
				if stoppedHere {
					out = append(out, vio{"ended-early", fmt.Sprintf("min=%d max=%d", minF, maxF), fmt.Sprintf("recording %d trigger %d ended at frame %d after %d post-trigger frames; last motion %d requires %d", ri, t, i, i-t+1, L, limit)})
				} else {
					out = append(out, vio{"ended-late", fmt.Sprintf("min=%d max=%d", minF, maxF), fmt.Sprintf("recording %d trigger %d not ended at frame %d (%d post-trigger frames, last motion %d, limit %d); stop step %d", ri, t, i, i-t+1, L, limit, rec.StopStep)})
				}
				return out
			}
			if stoppedHere {
				// the frame that completes the limit must itself be in the file
				if rec.PreFault {
					ended = true
					break
				}
				if len(rec.Seqs) == 0 || v.acc(rec.Seqs[len(rec.Seqs)-1]) != i {
					out = append(out, vio{"last-frame-missing", "", fmt.Sprintf("recording %d ended at frame %d but its last written frame is %v", ri, i, rec.Seqs)})
					return out
				}
				post := i - t + 1
				mx := maxF
				if mx < 1 {
					mx = 1
				}
				if post > mx {
					out = append(out, vio{"longer-than-max", "", fmt.Sprintf("recording %d has %d post-trigger frames > max %d", ri, post, mx)})
					return out
				}
				ended = true
				break
			}
		}
		if !ended && rec.StopStep >= 0 {
			out = append(out, vio{"stop-without-cause", "", fmt.Sprintf("recording %d stopped at step %d without reaching a limit", ri, rec.StopStep)})
			return out
		}
	}
	return out
}

// oracleC04: start iff (idle, motion, run >= trigger, window open, check ok, start ok).
func oracleC04(v *fsmView) []vio {
	var out []vio
	open := false
	run := 0
	for si, s := range v.steps {
		// find start / stop ops on the motion sink in this step
		startedOK, startTried, stopped := false, false, false
		for _, op := range s.Ops[sinkMotion] {
			switch op.Op {
			case opStart:
				startTried = true
				if !op.Err {
					startedOK = true
				}
			case opStop:
				if open || startedOK {
					stopped = true
				}
			}
		}
		if s.Acc < 0 {
			// bad frame / reset / request: no start may happen; a stop ends the recording and the run
			if startTried {
				out = append(out, vio{"start-outside-accepted-frame", string(s.Ev.Kind), fmt.Sprintf("StartRecording issued at step %d (%c)", si, s.Ev.Kind)})
				return out
			}
			if stopped && open {
				open = false
				run = 0
			}
			continue
		}
		if s.Motion {
			run++
		} else {
			run = 0
		}
		gate := !s.Ev.WinClosed && !s.Ev.CheckFail && !s.Ev.StartFail
		want := !open && s.Motion && run >= v.cfg.Trigger && gate
		if startedOK != want {
			why := fmt.Sprintf("step %d accepted frame %d: recording-open=%v motion=%v run=%d trigger-frames=%d window-closed=%v check-fail=%v start-fail=%v", si, s.Acc, open, s.Motion, run, v.cfg.Trigger, s.Ev.WinClosed, s.Ev.CheckFail, s.Ev.StartFail)
			if startedOK {
				kind := "unexpected-start"
				switch {
				case !s.Motion:
					kind = "start-without-motion"
				case s.Ev.WinClosed:
					kind = "start-outside-window"
				case s.Ev.CheckFail:
					kind = "start-despite-failed-disk-check"
				case run < v.cfg.Trigger:
					kind = "start-before-trigger-frames"
				case open:
					kind = "start-while-recording"
				}
				out = append(out, vio{kind, "", why})
			} else {
				out = append(out, vio{"missing-start", "", why})
			}
			return out
		}
		if !want && startTried && !s.Ev.StartFail {
			out = append(out, vio{"unexpected-start", "", fmt.Sprintf("step %d: StartRecording attempted", si)})
			return out
		}
		if startedOK {
			open = true
		}
		if stopped {
			open = false
			run = 0
		}
	}
	return out
}

// ---------------------------------------------------------------- workload

func fsmSmallConfigs() []fsmConfig {
	var out []fsmConfig
	for fps := 1; fps <= 3; fps++ {
		for preview := 0; preview <= 2; preview++ {
			for trig := 0; trig <= 3; trig++ {
				if preview*fps+trig < 1 {
					continue
				}
				for mx := 0; mx <= 3; mx++ {
					for mn := 0; mn <= mx; mn++ {
						out = append(out, fsmConfig{FPS: fps, Preview: preview, Trigger: trig, Min: mn, Max: mx})
					}
				}
			}
		}
	}
	return out
}

type fsmOracle func(*fsmView) []vio

func fsmOracleFor(prop string) fsmOracle {
	switch prop {
	case "C01":
		return oracleC01
	case "C02":
		return oracleC02
	case "C03":
		return oracleC03
	case "C04":
		return oracleC04
	}
	return nil
}

func fsmStats(c *vCtx, v *fsmView, r *fsmRun) {
	c.Count("frames_accepted", int64(r.acc))
	c.Count("recordings", int64(len(v.recs)))
	lastEnd := -1
	for _, rec := range v.recs {
		t := v.steps[rec.StartStep].Acc
		if lastEnd >= 0 && t >= 0 {
			d := t - lastEnd
			if d <= v.cfg.cap()+2 {
				c.Seen("retrigger_distance", fmt.Sprintf("cap%d:d%d", v.cfg.cap(), d))
				c.Count("retriggers_within_reach", 1)
			}
		}
		if len(rec.Seqs) > 0 {
			lastEnd = v.acc(rec.Seqs[len(rec.Seqs)-1])
		}
		if rec.StopStep >= 0 {
			switch v.steps[rec.StopStep].Ev.Kind {
			case evBad:
				c.Count("recordings_cut_by_bad_frame", 1)
			case evReset:
				c.Count("recordings_cut_by_reset", 1)
			default:
				post := v.steps[rec.StopStep].Acc - t + 1
				if post >= v.cfg.maxF() {
					c.Count("recordings_ended_by_max", 1)
				} else {
					c.Count("recordings_ended_by_min", 1)
				}
			}
		} else {
			c.Count("recordings_open_at_end", 1)
		}
	}
	for _, s := range v.steps {
		if s.Motion {
			c.Count("motion_frames_observed", 1)
		}
		if s.Ev.Kind == evQuery {
			c.Count("snapshot_queries", 1)
		}
		for _, op := range s.Ops[sinkMotion] {
			if op.Op == opStart && op.Err || op.Op == opCheck && op.Err {
				c.Count("refused_starts", 1)
			}
		}
		if s.Ev.WinClosed && s.Motion {
			c.Count("motion_frames_window_closed", 1)
		}
	}
	fl := r.mp.frameLoop
	c.Seen("ring_states", fmt.Sprintf("%s,rec%v", implState(fl), r.mp.isRecording))
}

func runFsmCase(c *vCtx, idx int64, prop string, oracle fsmOracle, cfg fsmConfig, evs []fsmEvent, class string) {
	runFsmCaseFaults(c, idx, prop, oracle, cfg, evs, class, 0)
}

// runFsmCaseFaults: writeFaultPct > 0 makes post-trigger WriteFrame calls fail at that rate
// (storage hiccups must not change which frames a recording is made of or when it ends).
func runFsmCaseFaults(c *vCtx, idx int64, prop string, oracle fsmOracle, cfg fsmConfig, evs []fsmEvent, class string, writeFaultPct int) {
	runFsmCaseFaults2(c, idx, prop, oracle, cfg, evs, class, writeFaultPct, 0)
}

// runFsmCaseFaults2: preFaultPct > 0 additionally makes WriteFrame calls of the pre-trigger
// path fail (only C03's oracle has a rule for the recordings given up that way).
func runFsmCaseFaults2(c *vCtx, idx int64, prop string, oracle fsmOracle, cfg fsmConfig, evs []fsmEvent, class string, writeFaultPct, preFaultPct int) {
	// every third case with camera time-on telemetry that is not strictly increasing
	timeOn := 0
	if idx%3 == 1 {
		timeOn = 1 + int(idx/3%3)
	}
	hasFFC := false
	for _, e := range evs {
		hasFFC = hasFFC || e.FFC
	}
	if hasFFC {
		timeOn = 0 // the 10 s rule needs a running time-on
	}
	// every fifth case with a telemetry frame counter that is not unique per frame
	counter := 0
	if idx%5 == 2 {
		counter = 1 + int(idx/5%3)
	}
	c.Case(idx, func() interface{} {
		r := newFsmRun(cfg)
		r.timeOnMode, r.counterMode = timeOn, counter
		r.preFaultPct = preFaultPct
		r.writeFaultPct, r.stopFaultPct, r.faultRNG = writeFaultPct, writeFaultPct/2, vNewRNG(uint64(idx), 99)
		for _, e := range evs {
			r.step(e)
		}
		return map[string]interface{}{"config": cfg.String(), "script": scriptString(evs), "camera_time_on": []string{"strictly increasing", "constant (Boson)", "falls back every 7 frames", "every value twice"}[timeOn],
			"camera_frame_counter": []string{"unique", "always 0 (Boson)", "constant 7", "every value three times"}[counter],
			"legend":               "f=frame m=frame with motion aimed b=bad frame r=reset q=snapshot query; suffix w=window closed c=disk check refuses x=file creation fails",
			"trace":                traceString(r.steps, 80)}
	}, func() {
		r := newFsmRun(cfg)
		r.timeOnMode, r.counterMode = timeOn, counter
		r.preFaultPct = preFaultPct
		r.writeFaultPct, r.stopFaultPct, r.faultRNG = writeFaultPct, writeFaultPct/2, vNewRNG(uint64(idx), 99)
		for _, e := range evs {
			s := r.step(e)
			if s.Panic != "" {
				c.Violation("panic", class, fmt.Sprintf("processor panicked at step %d: %s", len(r.steps)-1, s.Panic))
				return
			}
		}
		if writeFaultPct > 0 {
			for _, st := range r.steps {
				for _, op := range st.Ops[sinkMotion] {
					if op.Op == opWrite && op.Err {
						c.Count("post_trigger_write_faults", 1)
					}
					if op.Op == opStop && op.Err {
						c.Count("stop_faults", 1)
					}
				}
			}
		}
		v := newFsmView(r)
		for _, x := range oracle(v) {
			c.Violation(x.kind, x.class, x.detail)
		}
		if preFaultPct > 0 {
			for ri, rec := range v.recs {
				if rec.PreFault {
					c.Count("recordings_with_pre_trigger_write_fault", 1)
					if ri > 0 {
						c.Count("pre_trigger_fault_in_a_later_recording", 1)
					}
				}
			}
		}
		fsmStats(c, v, r)
		c.Seen("time_on_modes", fmt.Sprint(timeOn))
		if timeOn != 0 {
			c.Count("scripts_with_non_increasing_time_on", 1)
		}
		if hasFFC {
			c.Count("scripts_with_ffc_events", 1)
		}
		if cfg.Constant {
			c.Count("scripts_with_continuous_recorder", 1)
		}
		c.Seen("frame_counter_modes", fmt.Sprint(counter))
		if counter != 0 {
			c.Count("scripts_with_non_unique_frame_counter", 1)
		}
		if len(v.recs) > 0 {
			c.Nontrivial(vNewHash().Str(cfg.String()).U64(traceHash(r.steps)).Sum())
			c.Sample(class, func() interface{} {
				sc := scriptString(evs)
				if len(sc) > 600 {
					sc = sc[:600] + fmt.Sprintf("...(%d events)", len(evs))
				}
				return map[string]interface{}{"config": cfg.String(), "script": sc, "trace": traceString(r.steps, 40)}
			})
		}
	})
}

func fsmRandomConfig(rng *vRNG) fsmConfig {
	for {
		cfg := fsmConfig{FPS: rng.Range(1, 9), Preview: rng.Range(0, 5), Trigger: rng.Range(0, 4)}
		if rng.Chance(30) {
			cfg.FPS = 9
		}
		cfg.Max = rng.Range(0, 12)
		cfg.Min = rng.Range(0, cfg.Max)
		if rng.Chance(10) {
			cfg = fsmConfig{FPS: 9, Preview: rng.Range(1, 5), Trigger: 2, Min: 3, Max: 20}
		}
		if rng.Chance(3) {
			cfg = fsmConfig{FPS: 9, Preview: 5, Trigger: 2, Min: 10, Max: 600}
		}
		if rng.Chance(2) {
			// fast cameras: limits of a few thousand frames (seconds*fps*fps beyond 16 bits)
			cfg = []fsmConfig{{FPS: 60, Preview: 1, Trigger: 2, Min: 20, Max: 25}, {FPS: 30, Preview: 2, Trigger: 1, Min: 75, Max: 100}, {FPS: 60, Preview: 0, Trigger: 1, Min: 19, Max: 19}}[rng.Intn(3)]
		}
		if cfg.cap() >= 1 {
			return cfg
		}
	}
}

func fsmRandomScript(rng *vRNG, cfg fsmConfig, n int, withFaults bool) []fsmEvent {
	evs := make([]fsmEvent, 0, n)
	// motion comes in bursts so that recordings of all shapes occur
	pMotion := rng.PickInt(5, 20, 50, 80, 95, 100)
	pBad, pReset := 0, 0
	pWin, pCheck, pStart := 0, 0, 0
	pQuery := rng.PickInt(0, 0, 5, 30) // snapshot queries interleaved with the frames
	pSnap := rng.PickInt(0, 0, 1, 4)   // test-recording requests interleaved with the frames
	pFFC := rng.PickInt(0, 0, 0, 1, 3) // flat-field corrections (each blinds the detector for 10 s of time-on)
	if withFaults {
		pBad = rng.PickInt(0, 0, 1, 3)
		pReset = rng.PickInt(0, 0, 1, 2)
		pWin = rng.PickInt(0, 0, 10, 40)
		pCheck = rng.PickInt(0, 0, 10, 40)
		pStart = rng.PickInt(0, 0, 10, 40)
	}
	burst := false
	winClosed := false
	for len(evs) < n {
		if rng.Chance(8) {
			burst = !burst
		}
		if rng.Chance(3) {
			winClosed = !winClosed && pWin > 0
		}
		e := fsmEvent{Kind: evFrame}
		pm := pMotion
		if !burst {
			pm = pMotion / 6
		}
		if rng.Chance(pm) {
			e.Kind = evMotion
		}
		if rng.Intn(100) < pBad {
			e.Kind = evBad
		} else if rng.Intn(100) < pReset {
			e.Kind = evReset
		} else if rng.Intn(100) < pQuery {
			evs = append(evs, fsmEvent{Kind: evQuery})
		} else if rng.Intn(100) < pSnap {
			evs = append(evs, fsmEvent{Kind: evSnap})
		}
		e.FFC = rng.Intn(100) < pFFC
		e.WinClosed = winClosed || rng.Intn(100) < pWin/4
		e.CheckFail = rng.Intn(100) < pCheck
		e.StartFail = rng.Intn(100) < pStart
		evs = append(evs, e)
	}
	return evs
}

func TestVerif_FSM(t *testing.T) {
	prop := os.Getenv("VERIF_PROP")
	oracle := fsmOracleFor(prop)
	if oracle == nil {
		prop, oracle = "C01", oracleC01
	}
	c := vStart(t, prop, "TestVerif_FSM")
	defer c.Finish()
	idx := int64(0)

	// Part 1: exhaustive small scope: all configs x all motion strings
	// (one warm-up frame, then bits), fault-free gates.
	cfgs := fsmSmallConfigs()
	bits := int(c.N(11, 16))
	for _, cfg := range cfgs {
		for m := 0; m < 1<<uint(bits); m++ {
			myIdx := idx
			idx++
			if !c.Mine(myIdx) {
				continue
			}
			evs := make([]fsmEvent, bits+1)
			evs[0] = fsmEvent{Kind: evFrame}
			for b := 0; b < bits; b++ {
				if m>>uint(b)&1 == 1 {
					evs[b+1] = fsmEvent{Kind: evMotion}
				} else {
					evs[b+1] = fsmEvent{Kind: evFrame}
				}
			}
			runFsmCase(c, myIdx, prop, oracle, cfg, evs, "exhaustive-motion-strings")
		}
	}

	// Part 2: exhaustive gate scripts on shorter strings: for every config,
	// every motion string of length 7 x every placement of ONE disturbance
	// (window closed / check fails / start fails / bad frame / reset) at
	// every position.
	gbits := int(c.N(7, 10))
	for _, cfg := range cfgs {
		for m := 0; m < 1<<uint(gbits); m++ {
			for pos := 1; pos <= gbits; pos++ {
				for d := 0; d < 5; d++ {
					myIdx := idx
					idx++
					if !c.Mine(myIdx) {
						continue
					}
					evs := make([]fsmEvent, 0, gbits+2)
					evs = append(evs, fsmEvent{Kind: evFrame})
					for b := 0; b < gbits; b++ {
						e := fsmEvent{Kind: evFrame}
						if m>>uint(b)&1 == 1 {
							e.Kind = evMotion
						}
						if b+1 == pos {
							switch d {
							case 0:
								e.WinClosed = true
							case 1:
								e.CheckFail = true
							case 2:
								e.StartFail = true
							case 3:
								evs = append(evs, fsmEvent{Kind: evBad})
							case 4:
								evs = append(evs, fsmEvent{Kind: evReset})
							}
						}
						evs = append(evs, e)
					}
					runFsmCase(c, myIdx, prop, oracle, cfg, evs, "exhaustive-single-disturbance")
				}
			}
		}
	}

	// Part 3: random long scripts with bad frames, resets and refused starts.
	nrand := c.N(8000, 800000)
	for s := int64(0); s < nrand; s++ {
		myIdx := idx
		idx++
		if !c.Mine(myIdx) {
			continue
		}
		rng := c.RNG(myIdx)
		cfg := fsmRandomConfig(rng)
		// the continuous recorder runs next to the motion recorder in a third of the scripts
		// (its files roll over every max-secs*fps+1 frames, also in mid-recording)
		cfg.Constant = s%3 == 1
		n := rng.Range(50, 400)
		if rng.Chance(10) {
			n = rng.Range(400, 2000)
		}
		if cfg.Max > 100 || cfg.maxF() > 1000 {
			n = 7000
		}
		evs := fsmRandomScript(rng, cfg, n, rng.Chance(70))
		if s%5 == 4 {
			runFsmCaseFaults(c, myIdx, prop, oracle, cfg, evs, "random-script-with-write-faults", rng.PickInt(5, 30, 100))
		} else if prop == "C03" && s%5 == 3 {
			runFsmCaseFaults2(c, myIdx, prop, oracle, cfg, evs, "random-script-with-pre-trigger-write-faults", rng.PickInt(0, 5, 30), rng.PickInt(10, 30, 60))
		} else {
			runFsmCase(c, myIdx, prop, oracle, cfg, evs, "random-script")
		}
	}

	// Part 4: trigger placed at every position after start-up and after a
	// previous stop for cap 1..24 (C02's sweep; harmless for the others).
	for capWant := 1; capWant <= 24; capWant++ {
		for fps := 1; fps <= 9; fps++ {
			for trig := 0; trig <= 3; trig++ {
				if (capWant-trig) < 0 || (capWant-trig)%fps != 0 {
					continue
				}
				preview := (capWant - trig) / fps
				cfg := fsmConfig{FPS: fps, Preview: preview, Trigger: trig, Min: 1, Max: 2}
				for quiet := 0; quiet <= 3*capWant+2; quiet += 1 {
					for gap := 0; gap <= capWant+2; gap++ {
						myIdx := idx
						idx++
						if !c.Mine(myIdx) {
							continue
						}
						evs := []fsmEvent{}
						for i := 0; i < quiet; i++ {
							evs = append(evs, fsmEvent{Kind: evFrame})
						}
						burst := trig + 1
						for i := 0; i < burst; i++ {
							evs = append(evs, fsmEvent{Kind: evMotion})
						}
						for i := 0; i < cfg.maxF()+gap; i++ {
							evs = append(evs, fsmEvent{Kind: evFrame})
						}
						for i := 0; i < burst; i++ {
							evs = append(evs, fsmEvent{Kind: evMotion})
						}
						for i := 0; i < cfg.maxF()+1; i++ {
							evs = append(evs, fsmEvent{Kind: evFrame})
						}
						runFsmCase(c, myIdx, prop, oracle, cfg, evs, "trigger-position-sweep")
					}
				}
			}
		}
	}

	// Part 6 (C03 only): the stream stalls in real time in the middle of a recording (longer
	// than max-secs of wall time): limits are counted in frames, the recording still gets its
	// min-secs / max-secs worth of frames.
	if prop == "C03" {
		for k := 0; k < 6; k++ {
			myIdx := idx
			idx++
			if !c.Mine(myIdx) {
				continue
			}
			cfg := fsmConfig{FPS: 3, Preview: 1, Trigger: 1, Min: 1, Max: 1 + k%2}
			evs := []fsmEvent{{Kind: evFrame}, {Kind: evFrame}, {Kind: evFrame}}
			nm := 10
			if k >= 4 {
				nm = 1 // a blip: the min-secs tail is what stalls
			}
			for i := 0; i < nm; i++ {
				evs = append(evs, fsmEvent{Kind: evMotion})
			}
			for i := 0; i < 12; i++ {
				evs = append(evs, fsmEvent{Kind: evFrame})
			}
			// stall after the trigger frame plus one
			evs[5].Stall = time.Duration(cfg.Max)*time.Second + 150*time.Millisecond
			c.Count("stalled_streams", 1)
			runFsmCase(c, myIdx, prop, oracle, cfg, evs, "stream-stalls-in-mid-recording")
		}
	}

	// Part 5 (C04 only): very long motion runs during which every start is refused, the
	// refusal ending at run lengths around the powers of two at which a narrowed run
	// counter would wrap (2^7, 2^8, 2^15, 2^16): the refused start must still be retried on
	// the very next motion frame.
	if prop != "C04" {
		return
	}
	bounds := []int{128, 256, 32768, 65536}
	if c.N(0, 1) == 0 {
		bounds = []int{256, 65536}
	}
	for _, b := range bounds {
		for trig := 1; trig <= 3; trig++ {
			for kind := 0; kind < 3; kind++ {
				for off := -1; off <= 3; off++ {
					myIdx := idx
					idx++
					if !c.Mine(myIdx) {
						continue
					}
					cfg := fsmConfig{FPS: 9, Preview: 1, Trigger: trig, Min: 1, Max: 2}
					evs := []fsmEvent{{Kind: evFrame}, {Kind: evFrame}}
					// run frames 1..b+off-1 refused, run frame b+off is the first with open gates
					for i := 1; i < b+off; i++ {
						e := fsmEvent{Kind: evMotion}
						switch kind {
						case 0:
							e.WinClosed = true
						case 1:
							e.CheckFail = true
						default:
							e.StartFail = true
						}
						evs = append(evs, e)
					}
					for i := 0; i < 6; i++ {
						evs = append(evs, fsmEvent{Kind: evMotion})
					}
					for i := 0; i < cfg.maxF()+2; i++ {
						evs = append(evs, fsmEvent{Kind: evFrame})
					}
					c.Count("long_refused_runs", 1)
					c.Max("max:longest_refused_motion_run", int64(b+off-1))
					runFsmCase(c, myIdx, prop, oracle, cfg, evs, "long-refused-run")
				}
			}
		}
	}
}
