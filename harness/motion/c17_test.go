//go:build verif
// +build verif

package motion

// C17 - continuous recorder tiles the stream; a test recording is 21
// consecutive frames. Offline trace checker + paired-execution comparators.

import (
	"fmt"
	"testing"
)

const testRecordingFrames = 21

func sinkOpsString(steps []stepRec, k int) string {
	b := []byte{}
	for si, s := range steps {
		for _, op := range s.Ops[k] {
			if op.Op == opCheck {
				continue
			}
			b = append(b, []byte(fmt.Sprintf("%d:%c%d ", si, op.Op, op.Seq))...)
		}
	}
	return string(b)
}

// oracleC17Continuous checks tiling into M+1-frame files.
func oracleC17Continuous(v *fsmView) []vio {
	M := v.cfg.maxF()
	if !v.cfg.Constant {
		if n := len(collectOps(v.steps, sinkConst)); n > 0 {
			return []vio{{"disabled-continuous-sink-used", "", fmt.Sprintf("%d calls although the continuous recorder is off", n)}}
		}
		return nil
	}
	recs, viol := protocolScan(v.steps, sinkConst)
	if len(viol) > 0 {
		return []vio{{"continuous-protocol", "continuous sink", viol[0]}}
	}
	next := 0 // next accepted index expected in a file
	for ri, rec := range recs {
		if len(rec.Seqs) == 0 {
			return []vio{{"continuous-empty-file", "", fmt.Sprintf("file %d started at step %d holds no frame", ri, rec.StartStep)}}
		}
		for k, seq := range rec.Seqs {
			a := v.acc(seq)
			if a != next {
				return []vio{{"continuous-gap-or-repeat", fmt.Sprintf("M=%d", M), fmt.Sprintf("file %d position %d holds accepted frame %d, expected %d", ri, k, a, next)}}
			}
			next++
		}
		if v.steps[rec.StartStep].Acc != v.acc(rec.Seqs[0]) {
			return []vio{{"continuous-start-misplaced", "", fmt.Sprintf("file %d started at step %d but its first frame is %d", ri, rec.StartStep, v.acc(rec.Seqs[0]))}}
		}
		switch {
		case rec.StopStep < 0:
			if ri != len(recs)-1 {
				return []vio{{"continuous-protocol", "", "file left open before a later one"}}
			}
			if len(rec.Seqs) > M+1 {
				return []vio{{"continuous-file-too-long", fmt.Sprintf("M=%d", M), fmt.Sprintf("open file %d holds %d frames > %d", ri, len(rec.Seqs), M+1)}}
			}
		case v.steps[rec.StopStep].Ev.Kind == evBad:
			if len(rec.Seqs) > M+1 {
				return []vio{{"continuous-file-too-long", fmt.Sprintf("M=%d", M), fmt.Sprintf("file %d holds %d frames > %d", ri, len(rec.Seqs), M+1)}}
			}
		default:
			if len(rec.Seqs) != M+1 {
				return []vio{{"continuous-file-length", fmt.Sprintf("M=%d", M), fmt.Sprintf("file %d holds %d frames, expected max-secs*fps+1 = %d (ids %v)", ri, len(rec.Seqs), M+1, rec.Seqs)}}
			}
			if v.steps[rec.StopStep].Acc != v.acc(rec.Seqs[len(rec.Seqs)-1]) {
				return []vio{{"continuous-stop-misplaced", "", fmt.Sprintf("file %d stopped at step %d", ri, rec.StopStep)}}
			}
		}
	}
	// every accepted frame must be in a file
	total := 0
	for _, s := range v.steps {
		if s.Acc >= 0 {
			total++
		}
	}
	if next != total {
		return []vio{{"continuous-frame-lost", fmt.Sprintf("M=%d", M), fmt.Sprintf("%d accepted frames but only %d reached the continuous recorder", total, next)}}
	}
	return nil
}

// oracleC17Test checks test recordings: request at step k => frames of the
// next 21 accepted frames.
func oracleC17Test(v *fsmView) []vio {
	recs, viol := protocolScan(v.steps, sinkTest)
	if len(viol) > 0 {
		return []vio{{"test-protocol", "test sink", viol[0]}}
	}
	ri := 0
	for si, s := range v.steps {
		if s.Ev.Kind != evSnap {
			continue
		}
		// next accepted frame after the request
		first := -1
		firstStep := -1
		for j := si + 1; j < len(v.steps); j++ {
			if v.steps[j].Acc >= 0 {
				first, firstStep = v.steps[j].Acc, j
				break
			}
		}
		if first < 0 {
			continue // stream ended before the request could be served
		}
		if ri >= len(recs) {
			return []vio{{"test-recording-missing", "", fmt.Sprintf("request at step %d produced no recording", si)}}
		}
		rec := recs[ri]
		ri++
		if rec.StartStep != firstStep {
			return []vio{{"test-recording-start", "", fmt.Sprintf("request at step %d: recording started at step %d, next processed frame is at step %d", si, rec.StartStep, firstStep)}}
		}
		for k, seq := range rec.Seqs {
			if v.acc(seq) != first+k {
				return []vio{{"test-recording-frames", "", fmt.Sprintf("request at step %d: position %d holds accepted frame %d, expected %d", si, k, v.acc(seq), first+k)}}
			}
		}
		if rec.StopStep >= 0 && len(rec.Seqs) != testRecordingFrames {
			return []vio{{"test-recording-length", "", fmt.Sprintf("request at step %d: recording holds %d frames, expected %d", si, len(rec.Seqs), testRecordingFrames)}}
		}
		if rec.StopStep < 0 && len(rec.Seqs) >= testRecordingFrames {
			return []vio{{"test-recording-length", "", fmt.Sprintf("request at step %d: recording still open after %d frames", si, len(rec.Seqs))}}
		}
	}
	if ri != len(recs) {
		return []vio{{"test-recording-unrequested", "", fmt.Sprintf("%d test recordings for %d served requests", len(recs), ri)}}
	}
	return nil
}

func c17Script(rng *vRNG, n int, withBad bool) []fsmEvent {
	evs := make([]fsmEvent, 0, n)
	pm := rng.PickInt(10, 40, 80, 100)
	pReset := rng.PickInt(0, 1, 3)
	pBad := 0
	if withBad {
		pBad = rng.PickInt(1, 3)
	}
	pSnap := rng.PickInt(0, 1, 3, 6)
	cool := 0 // accepted frames until a new request is non-overlapping
	pending := false
	for len(evs) < n {
		e := fsmEvent{Kind: evFrame}
		x := rng.Intn(100)
		switch {
		case x < pBad:
			e.Kind = evBad
		case x < pBad+pReset:
			e.Kind = evReset
		case x < pBad+pReset+pSnap && cool == 0 && !pending:
			e.Kind = evSnap
			pending = true
		case rng.Chance(pm):
			e.Kind = evMotion
		}
		if e.Kind == evFrame || e.Kind == evMotion {
			if pending {
				pending = false
				cool = testRecordingFrames // this frame is #1
			}
			if cool > 0 {
				cool--
			}
			e.WinClosed = rng.Chance(5)
			e.CheckFail = rng.Chance(5)
			e.StartFail = rng.Chance(5)
		}
		evs = append(evs, e)
	}
	return evs
}

// c17Twin returns a script with the same skeleton (valid/bad/reset/request
// positions) but different motion content and gates.
func c17Twin(rng *vRNG, evs []fsmEvent) []fsmEvent {
	out := make([]fsmEvent, len(evs))
	pm := rng.PickInt(0, 30, 100)
	for i, e := range evs {
		out[i] = e
		if e.Kind == evFrame || e.Kind == evMotion {
			out[i] = fsmEvent{Kind: evFrame, WinClosed: rng.Chance(30), CheckFail: rng.Chance(20), StartFail: rng.Chance(20)}
			if rng.Chance(pm) {
				out[i].Kind = evMotion
			}
		}
	}
	return out
}

func c17NoRequests(evs []fsmEvent) []fsmEvent {
	out := make([]fsmEvent, 0, len(evs))
	for _, e := range evs {
		if e.Kind != evSnap {
			out = append(out, e)
		}
	}
	return out
}

func c17Exec(cfg fsmConfig, evs []fsmEvent) (*fsmRun, string) {
	r := newFsmRun(cfg)
	for si, e := range evs {
		if s := r.step(e); s.Panic != "" {
			return r, fmt.Sprintf("step %d: %s", si, s.Panic)
		}
	}
	return r, ""
}

func motionOpsByAcc(r *fsmRun) string {
	// motion-sink trace keyed by frame sequence id, so that it is comparable
	// between a run with and without (frame-less) request events
	b := []byte{}
	for _, s := range r.steps {
		for _, op := range s.Ops[sinkMotion] {
			b = append(b, []byte(fmt.Sprintf("%d:%c%d ", s.Seq, op.Op, op.Seq))...)
		}
	}
	return string(b)
}

func c17Case(c *vCtx, idx int64, cfg fsmConfig, evs []fsmEvent, twinSeed uint64, label string) {
	c.Case(idx, func() interface{} {
		r, _ := c17Exec(cfg, evs)
		return map[string]interface{}{"config": cfg.String(), "script": scriptString(evs), "trace": traceString(r.steps, 100),
			"legend": "s=test-recording request; continuous file length must be max*fps+1"}
	}, func() {
		r, p := c17Exec(cfg, evs)
		if p != "" {
			c.Violation("panic", label, p)
			return
		}
		if r.blockedRequests > 0 {
			c.Violation("test-recording-request-blocks", label, fmt.Sprintf("%d test-recording request(s) did not return within 10 s", r.blockedRequests))
			return
		}
		v := newFsmView(r)
		for _, x := range oracleC17Continuous(v) {
			c.Violation(x.kind, x.class, x.detail)
		}
		for _, x := range oracleC17Test(v) {
			c.Violation(x.kind, x.class, x.detail)
		}
		// independence of the continuous sink from motion/window/gates
		tw := c17Twin(vNewRNG(twinSeed), evs)
		r2, p2 := c17Exec(cfg, tw)
		if p2 != "" {
			c.Violation("panic", label, p2)
			return
		}
		if a, b := sinkOpsString(r.steps, sinkConst), sinkOpsString(r2.steps, sinkConst); a != b {
			c.Violation("continuous-depends-on-motion-or-gates", fmt.Sprintf("M=%d", cfg.maxF()), fmt.Sprintf("continuous sink trace differs between twin runs (same frames, different motion/window/disk/start outcomes):\n%s\nvs (twin script %s)\n%s", a, scriptString(tw), b))
		}
		if a, b := sinkOpsString(r.steps, sinkTest), sinkOpsString(r2.steps, sinkTest); a != b {
			c.Violation("test-recording-depends-on-motion-or-gates", "", fmt.Sprintf("test sink trace differs between twin runs:\n%s\nvs\n%s", a, b))
		}
		// motion recording undisturbed by requests
		r3, p3 := c17Exec(cfg, c17NoRequests(evs))
		if p3 != "" {
			c.Violation("panic", label, p3)
			return
		}
		if a, b := motionOpsByAcc(r), motionOpsByAcc(r3); a != b {
			c.Violation("test-recording-disturbs-motion-recording", "", fmt.Sprintf("motion sink trace with requests:\n%s\nwithout:\n%s", a, b))
		}
		crecs, _ := protocolScan(r.steps, sinkConst)
		trecs, _ := protocolScan(r.steps, sinkTest)
		mrecs, _ := protocolScan(r.steps, sinkMotion)
		c.Count("continuous_files", int64(len(crecs)))
		c.Count("test_recordings", int64(len(trecs)))
		c.Count("motion_recordings", int64(len(mrecs)))
		for _, tr := range trecs {
			if tr.StopStep >= 0 {
				c.Count("test_recordings_completed", 1)
			}
			// did it overlap a motion recording?
			for _, mr := range mrecs {
				end := mr.StopStep
				if end < 0 {
					end = len(r.steps)
				}
				if tr.StartStep <= end && (tr.StopStep < 0 || tr.StopStep >= mr.StartStep) {
					c.Count("test_recordings_overlapping_motion_recording", 1)
					break
				}
			}
		}
		c.Seen("continuous_file_len", fmt.Sprintf("%d", cfg.maxF()+1))
		if len(crecs)+len(trecs) > 0 {
			c.Nontrivial(vNewHash().Str(cfg.String()).U64(traceHash(r.steps)).Sum())
			c.Sample(label, func() interface{} {
				return map[string]interface{}{"config": cfg.String(), "script": scriptString(evs), "continuous": sinkOpsString(r.steps, sinkConst), "test": sinkOpsString(r.steps, sinkTest)}
			})
		}
	})
}

func TestVerif_C17(t *testing.T) {
	c := vStart(t, "C17", "TestVerif_C17")
	defer c.Finish()
	idx := int64(0)
	// (max-secs, fps) realising max*fps in {0,1,2,5,27,180} and more
	mf := [][2]int{{0, 1}, {1, 1}, {2, 1}, {1, 2}, {5, 1}, {1, 5}, {3, 9}, {20, 9}, {2, 3}, {1, 9}}
	// Part 1: request placed at every offset 0..2*(M+1)+22 of a stream, with a
	// motion burst at every offset (small M), continuous recorder on.
	for _, x := range mf[:6] {
		mx, fps := x[0], x[1]
		cfg := fsmConfig{FPS: fps, Preview: 1, Trigger: 1, Min: minInt(1, mx), Max: mx, Constant: true}
		span := 2*(cfg.maxF()+1) + 24
		for req := 0; req < span; req++ {
			for burst := 0; burst < span; burst += 1 + span/12 {
				myIdx := idx
				idx++
				if !c.Mine(myIdx) {
					continue
				}
				evs := []fsmEvent{}
				for i := 0; i < span+testRecordingFrames+2; i++ {
					if i == req {
						evs = append(evs, fsmEvent{Kind: evSnap})
					}
					e := fsmEvent{Kind: evFrame}
					if i >= burst && i < burst+3 {
						e.Kind = evMotion
					}
					evs = append(evs, e)
				}
				c17Case(c, myIdx, cfg, evs, uint64(myIdx)*77+uint64(c.Seed), "request-offset-sweep")
			}
		}
	}
	// Part 2: random scripts
	nrand := c.N(20000, 1000000)
	for s := int64(0); s < nrand; s++ {
		myIdx := idx
		idx++
		if !c.Mine(myIdx) {
			continue
		}
		rng := c.RNG(myIdx)
		x := mf[rng.Intn(len(mf))]
		mx, fps := x[0], x[1]
		cfg := fsmConfig{FPS: fps, Preview: rng.Range(0, 2), Trigger: rng.Range(0, 3), Max: mx, Constant: rng.Chance(85)}
		cfg.Min = rng.Range(0, mx)
		if cfg.cap() < 1 {
			cfg.Trigger = 1
		}
		n := rng.Range(30, 500)
		if cfg.maxF() > 100 {
			n = rng.Range(400, 900)
		}
		evs := c17Script(rng, n, rng.Chance(25))
		c17Case(c, myIdx, cfg, evs, rng.U64(), "random-script")
	}
	// Part 3: the continuous recorder's storage fails at random while test recordings are requested
	nf := c.N(3000, 200000)
	for s := int64(0); s < nf; s++ {
		myIdx := idx
		idx++
		if !c.Mine(myIdx) {
			continue
		}
		rng := c.RNG(myIdx)
		x := mf[rng.Intn(6)]
		cfg := fsmConfig{FPS: x[1], Preview: 1, Trigger: 1, Max: x[0], Constant: true}
		cfg.Min = rng.Range(0, x[0])
		evs := c17Script(rng, rng.Range(30, 200), false)
		c17FaultCase(c, myIdx, cfg, evs, rng.PickInt(10, 50, 100))
	}
}

// c17FaultCase: the continuous recorder's storage fails (start and stop calls, at random);
// a test recording is a separate file on a separate recorder and must come out exactly as
// it does when the continuous recorder is healthy.
func c17FaultCase(c *vCtx, idx int64, cfg fsmConfig, evs []fsmEvent, pct int) {
	exec := func(faulty bool) (*fsmRun, string) {
		r := newFsmRun(cfg)
		if faulty {
			frng := vNewRNG(uint64(idx), 1717)
			r.fault = func(sink int, op byte, n int) bool {
				return sink == sinkConst && (op == opStart || op == opStop) && frng.Intn(100) < pct
			}
		}
		for si, e := range evs {
			if s := r.step(e); s.Panic != "" {
				return r, fmt.Sprintf("step %d: %s", si, s.Panic)
			}
		}
		return r, ""
	}
	c.Case(idx, func() interface{} {
		r, _ := exec(true)
		return map[string]interface{}{"config": cfg.String(), "script": scriptString(evs), "trace": traceString(r.steps, 100),
			"legend": fmt.Sprintf("s=test-recording request; the continuous sink's start/stop calls fail with probability %d%%", pct)}
	}, func() {
		r, p := exec(true)
		if p != "" {
			c.Violation("panic", "continuous recorder failing", p)
			return
		}
		v := newFsmView(r)
		for _, x := range oracleC17Test(v) {
			c.Violation(x.kind, "continuous recorder failing; "+x.class, x.detail)
		}
		r0, p0 := exec(false)
		if p0 != "" {
			c.Violation("panic", "", p0)
			return
		}
		if a, b := sinkOpsString(r.steps, sinkTest), sinkOpsString(r0.steps, sinkTest); a != b {
			c.Violation("test-recording-depends-on-continuous-recorder", "", fmt.Sprintf("test sink trace while the continuous recorder's storage fails:\n%s\nwith healthy storage:\n%s", a, b))
		}
		nf := 0
		for _, st := range r.steps {
			for _, op := range st.Ops[sinkConst] {
				if op.Err {
					nf++
				}
			}
		}
		trecs, _ := protocolScan(r.steps, sinkTest)
		c.Count("continuous_sink_failures", int64(nf))
		c.Count("test_recordings_while_continuous_sink_fails", int64(len(trecs)))
		if nf > 0 && len(trecs) > 0 {
			c.Nontrivial(vNewHash().Str(cfg.String()).U64(traceHash(r.steps)).Int(pct).Sum())
		}
	})
}

func minInt(a, b int) int {
	if a < b {
		return a
	}
	return b
}
