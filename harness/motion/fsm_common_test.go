//go:build verif
// +build verif

package motion

// Shared machinery for the recording-state-machine monitors (C01-C04, C12,
// C13, C17): a scripted event source, monitor sinks on all three recorder
// interfaces, a virtual window clock and the trace the oracles consume.

import (
	"errors"
	"fmt"
	"strings"
	"sync/atomic"
	"time"

	config "github.com/TheCacophonyProject/go-config"
	"github.com/TheCacophonyProject/go-cptv/cptvframe"
	"github.com/TheCacophonyProject/thermal-recorder/recorder"
	"github.com/TheCacophonyProject/window"
)

// ---------------------------------------------------------------- events

const (
	evFrame  = 'f' // valid frame, no motion aimed
	evMotion = 'm' // valid frame, motion aimed (hot pixel toggles)
	evBad    = 'b' // frame the parser rejects after partially filling the slot
	evReset  = 'r' // camera reset ("clear")
	evSnap   = 's' // test-recording request (takes effect on the next frame)
	evQuery  = 'q' // snapshot query (GetRecentFrame, as the D-Bus TakeSnapshot path does)
)

type fsmEvent struct {
	Kind      byte
	At        time.Time // wall-clock instant of this event (zero: derived from WinClosed)
	WinClosed bool      // recording window closed while this event is processed
	CheckFail bool      // CheckCanRecord of the motion sink refuses
	StartFail bool      // StartRecording of the motion sink fails
	// the camera ran a flat-field correction just before this frame: from here on the telemetry
	// reports it as the last FFC (the next 10 s of frames are in the settling period)
	FFC bool
	// real time that passes before this event is processed (a camera delivering slower than its
	// nominal frame rate, a stalled socket): recording lengths are counted in frames, not seconds
	Stall time.Duration
}

type fsmConfig struct {
	FPS, Preview, Trigger, Min, Max int
	Constant                        bool
	ResX, ResY                      int
}

func (c fsmConfig) cap() int  { return c.Preview*c.FPS + c.Trigger }
func (c fsmConfig) minF() int { return c.Min * c.FPS }
func (c fsmConfig) maxF() int { return c.Max * c.FPS }
func (c fsmConfig) String() string {
	return fmt.Sprintf("fps=%d preview=%d trigger=%d min=%d max=%d const=%v", c.FPS, c.Preview, c.Trigger, c.Min, c.Max, c.Constant)
}

// ---------------------------------------------------------------- sinks

const (
	opStart = 'S'
	opWrite = 'W'
	opStop  = 'P'
	opCheck = 'C'
)

type sinkOp struct {
	Op     byte
	Seq    int // frame sequence id for writes
	Err    bool
	Thresh uint16
	Bg     *cptvframe.Frame // deep copy of the background passed to StartRecording (only when keepBg)
}

const (
	sinkMotion = 0
	sinkConst  = 1
	sinkTest   = 2
)

var sinkNames = []string{"motion", "continuous", "test"}

// monSink is a recorder.Recorder that records every call and returns
// scripted results. It never panics.
type monSink struct {
	run   *fsmRun
	which int
	calls [4]int // per op kind call counters (S,W,P,C)
}

func opIdx(op byte) int {
	switch op {
	case opStart:
		return 0
	case opWrite:
		return 1
	case opStop:
		return 2
	}
	return 3
}

func (s *monSink) result(op byte) error {
	k := opIdx(op)
	n := s.calls[k]
	s.calls[k]++
	r := s.run
	if r.fault != nil && r.fault(s.which, op, n) {
		return errors.New("injected fault")
	}
	// post-trigger write faults (the frame loop logs them and carries on): never on the
	// writes of the step in which the recording started (those are the pre-trigger path)
	if r.stopFaultPct > 0 && op == opStop && s.which == sinkMotion && r.faultRNG.Intn(100) < r.stopFaultPct {
		return errors.New("injected stop fault")
	}
	if r.writeFaultPct > 0 && op == opWrite && s.which == sinkMotion && r.curRec != nil {
		started := false
		for _, o := range r.curRec.Ops[sinkMotion] {
			if o.Op == opStart {
				started = true
			}
		}
		if !started && r.faultRNG.Intn(100) < r.writeFaultPct {
			return errors.New("injected write fault")
		}
		// pre-trigger write faults (C03's one-sided class): the recording is given up, so
		// it may be shorter than the rule says, but never longer
		if started && r.preFaultPct > 0 && r.faultRNG.Intn(100) < r.preFaultPct {
			return errors.New("injected pre-trigger write fault")
		}
	}
	if s.which == sinkMotion && r.cur != nil {
		if op == opCheck && r.cur.CheckFail {
			return errors.New("scripted: disk check refused")
		}
		if op == opStart && r.cur.StartFail {
			return errors.New("scripted: file creation failed")
		}
	}
	return nil
}

func (s *monSink) StartRecording(bg *cptvframe.Frame, thresh uint16) error {
	if s.which == sinkTest && s.run.requestInsideTestStart && s.run.mp != nil {
		// a second request from the service lands while the frame loop is inside the test
		// recorder's StartRecording (emulated on this goroutine; never waited for long, so an
		// implementation that makes requesters wait during the start is not mistaken for a hang)
		mp := s.run.mp
		done := make(chan struct{})
		go func() {
			mp.RequestSnapshot()
			close(done)
		}()
		select {
		case <-done:
		case <-time.After(20 * time.Millisecond):
		}
		s.run.requestsInsideTestStart++
	}
	err := s.result(opStart)
	op := sinkOp{Op: opStart, Err: err != nil, Thresh: thresh}
	if s.run.keepBg && bg != nil {
		op.Bg = bg.CreateCopy()
	}
	s.run.add(s.which, op)
	return err
}
func (s *monSink) WriteFrame(f *cptvframe.Frame) error {
	err := s.result(opWrite)
	s.run.add(s.which, sinkOp{Op: opWrite, Seq: fsmSeqOf(f), Err: err != nil})
	return err
}
func (s *monSink) StopRecording() error {
	err := s.result(opStop)
	s.run.add(s.which, sinkOp{Op: opStop, Err: err != nil})
	return err
}
func (s *monSink) CheckCanRecord() error {
	err := s.result(opCheck)
	s.run.add(s.which, sinkOp{Op: opCheck, Err: err != nil})
	return err
}

var _ recorder.Recorder = (*monSink)(nil)

// ---------------------------------------------------------------- trace

type stepRec struct {
	Ev     fsmEvent
	Seq    int // sequence id of the frame (valid or bad), -1 for non-frame events
	Acc    int // accepted index, -1 if not an accepted frame
	Motion bool
	Ops    [3][]sinkOp
	Err    bool
	Panic  string
	// listener callbacks
	Started, Ended int
}

type fsmRun struct {
	cfg    fsmConfig
	mp     *MotionProcessor
	sinks  [3]*monSink
	steps  []stepRec
	cur    *fsmEvent
	curRec *stepRec
	fault  func(sink int, op byte, n int) bool
	// probability (percent) that a post-trigger WriteFrame on the motion sink fails
	writeFaultPct int
	// probability (percent) that StopRecording on the motion sink reports an error
	stopFaultPct int
	// probability (percent) that a WriteFrame of the pre-trigger path (the step in which
	// the recording started) fails
	preFaultPct int
	faultRNG    *vRNG
	keepBg      bool
	now         time.Time
	seq         int
	acc         int
	accOf       []int // seq -> accepted index or -1
	level       uint16
	// hooks for specialised harnesses
	afterStep func(r *fsmRun, s *stepRec)
	// test-recording requests that did not return (the service path must never block)
	blockedRequests int
	// see fsmTimeOnMode, fsmCounterMode
	timeOnMode  int
	counterMode int
	lastFFC     time.Duration
	// issue another test-recording request from inside the test sink's StartRecording
	requestInsideTestStart  bool
	requestsInsideTestStart int
}

var snapBlockedOnce int32

// requestSnapshotBounded issues a test-recording request through the public entry point the
// D-Bus service uses. The call has to return at once whether or not frames are flowing; if it
// does not within 10 s the request is left pending and the script goes on (later requests in
// this process then wait only 50 ms).
func requestSnapshotBounded(mp *MotionProcessor) bool {
	done := make(chan struct{})
	go func() {
		mp.RequestSnapshot()
		close(done)
	}()
	wait := 10 * time.Second
	if atomic.LoadInt32(&snapBlockedOnce) != 0 {
		wait = 50 * time.Millisecond
	}
	select {
	case <-done:
		return true
	case <-time.After(wait):
		atomic.StoreInt32(&snapBlockedOnce, 1)
		return false
	}
}

func (r *fsmRun) add(which int, op sinkOp) {
	if r.curRec != nil {
		r.curRec.Ops[which] = append(r.curRec.Ops[which], op)
	}
}

func (r *fsmRun) MotionDetected() {
	if r.curRec != nil {
		r.curRec.Motion = true
	}
}
func (r *fsmRun) RecordingStarted() {
	if r.curRec != nil {
		r.curRec.Started++
	}
}
func (r *fsmRun) RecordingEnded() {
	if r.curRec != nil {
		r.curRec.Ended++
	}
}

var errScriptedBad = errors.New("scripted bad frame")

// raw frame layout used by the harness parser: [0]=kind [1..4]=seq [5..6]=hot level
func fsmRaw(kind byte, seq int, level uint16) []byte {
	return []byte{kind, byte(seq), byte(seq >> 8), byte(seq >> 16), byte(seq >> 24), byte(level), byte(level >> 8)}
}

// fsmTimeOnMode selects what the camera's time-on telemetry looks like: 0 strictly
// increasing (Lepton), 1 constant (the Boson parser stamps every frame with one minute),
// 2 a counter that falls back every 7 frames without a 'clear', 3 every value twice.
// None of them is within 10 s of the last FFC. Set per step by fsmRun.
var fsmTimeOnMode int

func fsmTimeOn(seq int) time.Duration {
	switch fsmTimeOnMode {
	case 1:
		return time.Minute
	case 2:
		return time.Minute + time.Duration(seq%7)*111*time.Millisecond
	case 3:
		return time.Minute + time.Duration(seq/2)*111*time.Millisecond
	}
	return time.Minute + time.Duration(seq)*111*time.Millisecond
}

// fsmCounterMode selects the camera's telemetry frame counter: 0 unique per frame, 1 always
// zero (Boson frames carry no counter), 2 a constant non-zero value, 3 each value three
// times (a counter running slower than the frames are delivered). Set per step by fsmRun.
var fsmCounterMode int

// fsmLastFFC is the time-on value the telemetry reports for the last flat-field correction
// (one second after power-up unless a script says otherwise). Set per step by fsmRun.
var fsmLastFFC = time.Second

func fsmFrameCount(seq int) int {
	switch fsmCounterMode {
	case 1:
		return 0
	case 2:
		return 7
	case 3:
		return seq/3 + 1
	}
	return seq
}

// fsmSeqOf identifies a frame handed to a sink (independent of the telemetry the code may look at).
func fsmSeqOf(f *cptvframe.Frame) int { return int(f.Status.TempC) }

func fsmParse(raw []byte, out *cptvframe.Frame, edge int) error {
	seq := int(raw[1]) | int(raw[2])<<8 | int(raw[3])<<16 | int(raw[4])<<24
	level := uint16(raw[5]) | uint16(raw[6])<<8
	out.Status = cptvframe.Telemetry{
		TimeOn:      fsmTimeOn(seq),
		LastFFCTime: fsmLastFFC,
		FrameCount:  fsmFrameCount(seq),
		TempC:       float64(seq), // the harness' own frame id (camera temperature: used by no logic)
	}
	rows := len(out.Pix)
	if raw[0] == evBad {
		rows = (rows + 1) / 2 // partially filled, like a real parser failing mid-frame
	}
	for y := 0; y < rows; y++ {
		row := out.Pix[y]
		for x := range row {
			row[x] = 1000
		}
	}
	out.Pix[0][0] = level
	if raw[0] == evBad {
		return errScriptedBad
	}
	return nil
}

const (
	winStart = "10:00"
	winStop  = "11:00"
)

var (
	timeOpen   = time.Date(2021, 6, 1, 10, 30, 0, 0, time.UTC)
	timeClosed = time.Date(2021, 6, 1, 12, 0, 0, 0, time.UTC)
)

func fsmMotionConfig(trigger int) *config.ThermalMotion {
	return &config.ThermalMotion{
		DynamicThreshold: false,
		TempThresh:       0,
		DeltaThresh:      10,
		CountThresh:      1,
		FrameCompareGap:  1,
		UseOneDiffOnly:   true,
		TriggerFrames:    trigger,
		WarmerOnly:       false,
		EdgePixels:       0,
	}
}

func newFsmRun(cfg fsmConfig) *fsmRun { return newFsmRunWindow(cfg, winStart, winStop) }

func newFsmRunWindow(cfg fsmConfig, wStart, wStop string) *fsmRun {
	if cfg.ResX == 0 {
		cfg.ResX, cfg.ResY = 3, 2
	}
	r := &fsmRun{cfg: cfg, now: timeOpen, level: 3000}
	for i := range r.sinks {
		r.sinks[i] = &monSink{run: r, which: i}
	}
	w, err := window.New(wStart, wStop, 0, 0)
	if err != nil {
		panic(err)
	}
	w.Now = func() time.Time { return r.now }
	rc := &recorder.RecorderConfig{MinSecs: cfg.Min, MaxSecs: cfg.Max, PreviewSecs: cfg.Preview, Window: *w, ConstantRecorder: cfg.Constant}
	var constant recorder.Recorder
	if cfg.Constant {
		constant = r.sinks[sinkConst]
	} else {
		// exactly what main.go passes when the constant recorder is off: a typed nil pointer
		var nilSink *monSink
		constant = nilSink
	}
	cam := vCam{cfg.ResX, cfg.ResY, cfg.FPS}
	r.mp = NewMotionProcessor(fsmParse, fsmMotionConfig(cfg.Trigger), rc, &config.Location{}, r, r.sinks[sinkMotion], cam, constant, r.sinks[sinkTest])
	return r
}

// step feeds one event to the real processor and records what the monitors saw.
func (r *fsmRun) step(ev fsmEvent) *stepRec {
	r.steps = append(r.steps, stepRec{Ev: ev, Seq: -1, Acc: -1})
	rec := &r.steps[len(r.steps)-1]
	r.cur, r.curRec = &rec.Ev, rec
	fsmTimeOnMode, fsmCounterMode = r.timeOnMode, r.counterMode
	if r.lastFFC == 0 {
		r.lastFFC = time.Second
	}
	if ev.FFC && (ev.Kind == evFrame || ev.Kind == evMotion || ev.Kind == evBad) {
		r.lastFFC = fsmTimeOn(r.seq)
	}
	fsmLastFFC = r.lastFFC
	if ev.Stall > 0 {
		time.Sleep(ev.Stall)
	}
	if !ev.At.IsZero() {
		r.now = ev.At
	} else if ev.WinClosed {
		r.now = timeClosed
	} else {
		r.now = timeOpen
	}
	func() {
		defer func() {
			if p := recover(); p != nil {
				rec.Panic = fmt.Sprint(p)
			}
		}()
		switch ev.Kind {
		case evFrame, evMotion, evBad:
			if ev.Kind == evMotion {
				if r.level == 3000 {
					r.level = 5000
				} else {
					r.level = 3000
				}
			}
			rec.Seq = r.seq
			r.seq++
			err := r.mp.Process(fsmRaw(ev.Kind, rec.Seq, r.level))
			rec.Err = err != nil
			if err == nil {
				rec.Acc = r.acc
				r.acc++
			}
			r.accOf = append(r.accOf, rec.Acc)
		case evReset:
			r.mp.Reset(vCam{r.cfg.ResX, r.cfg.ResY, r.cfg.FPS})
		case evSnap:
			if !requestSnapshotBounded(r.mp) {
				r.blockedRequests++
			}
		case evQuery:
			if _, f := r.mp.GetRecentFrame(); f != nil {
				// the caller owns the copy and may do what it likes with it
				f.Status.FrameCount = -12345
				for y := range f.Pix {
					for x := range f.Pix[y] {
						f.Pix[y][x] = 0
					}
				}
			}
		}
	}()
	r.cur, r.curRec = nil, nil
	if r.afterStep != nil {
		r.afterStep(r, rec)
	}
	return rec
}

// ---------------------------------------------------------------- recordings

type recording struct {
	Sink      int
	StartStep int   // step of the successful StartRecording
	Seqs      []int // written frame sequence ids, in write order
	PreLen    int   // number of frames written in the start step
	StopStep  int   // step of the StopRecording, -1 if still open at the end
	StopErr   bool
	WriteErr  bool // some write inside returned an error
	PreFault  bool // a write in the start step (pre-trigger frames or the trigger frame) returned an error
}

// protocolScan walks one sink's operations, returns the recordings and the
// protocol violations (writes while closed, starts while open).
func protocolScan(steps []stepRec, sink int) (recs []recording, viol []string) {
	open := false
	var cur recording
	for si := range steps {
		for _, op := range steps[si].Ops[sink] {
			switch op.Op {
			case opStart:
				if open {
					viol = append(viol, fmt.Sprintf("start-while-open at step %d", si))
					// the sink treats the new start as replacing the old recording
					cur.StopStep = si
					recs = append(recs, cur)
					open = false
				}
				if !op.Err {
					open = true
					cur = recording{Sink: sink, StartStep: si, StopStep: -1}
				}
			case opWrite:
				if !open {
					viol = append(viol, fmt.Sprintf("write-while-closed at step %d (frame %d)", si, op.Seq))
					continue
				}
				cur.Seqs = append(cur.Seqs, op.Seq)
				if si == cur.StartStep {
					cur.PreLen++
				}
				if op.Err {
					cur.WriteErr = true
					if si == cur.StartStep {
						cur.PreFault = true
					}
				}
			case opStop:
				if open {
					cur.StopStep = si
					cur.StopErr = op.Err
					recs = append(recs, cur)
					open = false
				}
			}
		}
	}
	if open {
		recs = append(recs, cur)
	}
	return
}

func scriptString(evs []fsmEvent) string {
	var sb strings.Builder
	for _, e := range evs {
		if e.FFC {
			sb.WriteByte('F')
		}
		sb.WriteByte(e.Kind)
		if e.WinClosed {
			sb.WriteByte('w')
		}
		if e.CheckFail {
			sb.WriteByte('c')
		}
		if e.StartFail {
			sb.WriteByte('x')
		}
	}
	return sb.String()
}

func traceString(steps []stepRec, max int) []string {
	out := []string{}
	for i, s := range steps {
		if i >= max {
			out = append(out, fmt.Sprintf("… %d more steps", len(steps)-i))
			break
		}
		var sb strings.Builder
		fmt.Fprintf(&sb, "%d:%c", i, s.Ev.Kind)
		if s.Acc >= 0 {
			fmt.Fprintf(&sb, " acc=%d", s.Acc)
		}
		if s.Motion {
			sb.WriteString(" MOTION")
		}
		for k := 0; k < 3; k++ {
			if len(s.Ops[k]) == 0 {
				continue
			}
			fmt.Fprintf(&sb, " %s[", sinkNames[k])
			for _, op := range s.Ops[k] {
				sb.WriteByte(op.Op)
				if op.Op == opWrite {
					fmt.Fprintf(&sb, "%d", op.Seq)
				}
				if op.Err {
					sb.WriteByte('!')
				}
			}
			sb.WriteByte(']')
		}
		if s.Panic != "" {
			sb.WriteString(" PANIC " + s.Panic)
		}
		out = append(out, sb.String())
	}
	return out
}

func traceHash(steps []stepRec) uint64 {
	h := vNewHash()
	for _, s := range steps {
		h.Int(int(s.Ev.Kind)).Bool(s.Motion).Int(s.Acc)
		for k := 0; k < 3; k++ {
			for _, op := range s.Ops[k] {
				h.Int(int(op.Op)).Int(op.Seq).Bool(op.Err)
			}
			h.Int(-7)
		}
	}
	return h.Sum()
}
