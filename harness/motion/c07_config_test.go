//go:build verif
// +build verif

package motion

// C07 through the configuration path the daemon uses: a [thermal-motion] section written to
// config.toml, loaded with NewConfig for the connected camera model, must be accepted for
// every legal combination (2*edge-pixels < min(width,height) - which allows wide borders on
// Boson-sized cameras) and must be the configuration detection then follows (reference
// detector in lock-step on a short stream).

import (
	"fmt"
	"io/ioutil"
	"os"
	"path/filepath"
	"strings"
	"testing"

	config "github.com/TheCacophonyProject/go-config"
	"github.com/TheCacophonyProject/go-cptv/cptvframe"
)

func TestVerif_C07Config(t *testing.T) {
	c := vStart(t, "C07", "TestVerif_C07Config")
	defer c.Finish()
	scratch := vEnv("VERIF_SCRATCH", t.TempDir())
	type camKind struct {
		model string
		w, h  int
	}
	cams := []camKind{{"lepton3", 160, 120}, {"lepton3.5", 160, 120}, {"boson", 320, 256}, {"boson", 640, 512}}
	n := c.N(240, 6000)
	for idx := int64(0); idx < n; idx++ {
		if !c.Mine(idx) {
			continue
		}
		rng := c.RNG(idx)
		ck := cams[int(idx)%len(cams)]
		if ck.w == 640 && idx%16 != 3 {
			ck = cams[2]
		}
		cfg := detRandomConfig(rng, false)
		cfg.W, cfg.H = ck.w, ck.h
		half := ck.h / 2
		cfg.Edge = rng.PickInt(0, 1, 2, 3, 59, 60, 100, half-1, half-2)
		if 2*cfg.Edge >= ck.h {
			cfg.Edge = half - 1
		}
		cfg.Count = rng.PickInt(1, 2, 3)
		if cfg.interiorN() < cfg.Count {
			cfg.Count = 1
		}
		if cfg.Gap > 5 {
			cfg.Gap = rng.Range(1, 5)
		}
		cfg.Delta = uint16(rng.PickInt(30, 200, 2000))
		cfg.Temp = uint16(rng.PickInt(0, 2900, 28000))
		cfg.TMin, cfg.TMax, cfg.Verbose = 0, 0, false
		trigger := rng.Range(0, 3)
		var sb strings.Builder
		sb.WriteString("[thermal-motion]\n")
		fmt.Fprintf(&sb, "dynamic-threshold = false\ntemp-thresh = %d\ndelta-thresh = %d\ncount-thresh = %d\nframe-compare-gap = %d\n", cfg.Temp, cfg.Delta, cfg.Count, cfg.Gap)
		fmt.Fprintf(&sb, "use-one-diff-only = %v\ntrigger-frames = %d\nwarmer-only = %v\nedge-pixels = %d\n", cfg.OneDiff, trigger, cfg.Warmer, cfg.Edge)
		toml := sb.String()
		frames := sceneStepStream(rng, cfg, rng.Range(3, 5))
		bad := -1
		c.Case(idx, func() interface{} {
			return map[string]interface{}{"camera_model": ck.model, "resolution": fmt.Sprintf("%dx%d", ck.w, ck.h), "config_toml": toml, "stream": detStreamDesc(cfg, frames, bad)()}
		}, func() {
			dir, err := ioutil.TempDir(scratch, "c07cfg-")
			if err != nil {
				c.Inconclusive(err.Error())
				return
			}
			defer os.RemoveAll(dir)
			if err := ioutil.WriteFile(filepath.Join(dir, "config.toml"), []byte(toml), 0644); err != nil {
				c.Inconclusive(err.Error())
				return
			}
			rw, err := config.New(dir)
			if err != nil {
				c.Inconclusive("go-config: " + err.Error())
				return
			}
			mc, err := NewConfig(rw, ck.model)
			if err != nil || mc == nil {
				c.Violation("config-rejected", fmt.Sprintf("%s %dx%d", ck.model, ck.w, ck.h), fmt.Sprintf("NewConfig refused a legal [thermal-motion] section (edge-pixels %d on %dx%d): %v", cfg.Edge, ck.w, ck.h, err))
				return
			}
			want := cfg.motionConfig()
			want.TriggerFrames = trigger
			if *mc != want {
				c.Violation("config-not-applied", ck.model, fmt.Sprintf("config.toml section gives %+v, NewConfig returned %+v", want, *mc))
				return
			}
			det := NewMotionDetector(*mc, 0, cfg.cam())
			ref := &refDetector{cfg: cfg}
			frame := cptvframe.NewFrame(cfg.cam())
			for i := range frames {
				f := &frames[i]
				f.toFrame(frame, i)
				got := det.Detect(frame)
				wantM, count := ref.Detect(f.Pix)
				if got != wantM {
					bad = i
					kind := "missed-motion"
					if got {
						kind = "false-motion"
					}
					c.Violation(kind, "through config.toml", fmt.Sprintf("frame %d: Detect() %v, reference %v (changed pixels %d; settings %s)", i, got, wantM, count, cfg.String()))
					return
				}
			}
			c.Count("configs_loaded", 1)
			if cfg.Edge >= 59 {
				c.Count("configs_with_wide_border", 1)
			}
			c.Seen("camera_models", fmt.Sprintf("%s %dx%d", ck.model, ck.w, ck.h))
			c.Nontrivial(vNewHash().Str(toml).Str(ck.model).Int(ck.w).Sum())
		})
	}
}
