//go:build verif
// +build verif

package motion

// C15 - dynamic threshold tracks the background mean within its configured
// bounds. In-package invariant monitor evaluated after every frame, plus the
// snapshot handed to the motion sink at StartRecording.

import (
	"encoding/binary"
	"fmt"
	"github.com/TheCacophonyProject/lepton3"
	"testing"
	"time"

	config "github.com/TheCacophonyProject/go-config"
	"github.com/TheCacophonyProject/go-cptv/cptvframe"
	"github.com/TheCacophonyProject/thermal-recorder/recorder"
	"github.com/TheCacophonyProject/window"
)

// c15Stream: drifting / noisy / stepping / cooling scenes with hot moving
// blocks, FFC periods and resets.
func c15Stream(rng *vRNG, c detConfig, n int, level int) []detFrame {
	out := []detFrame{}
	t := time.Duration(rng.PickInt(0, 5, 60)) * time.Second
	last := time.Duration(0)
	if rng.Chance(30) {
		last = -time.Hour // never affected until an FFC happens
	}
	step := time.Second / time.Duration(c.FPS)
	scene := make([][]int, c.H)
	for y := range scene {
		scene[y] = make([]int, c.W)
		for x := range scene[y] {
			scene[y][x] = level + rng.Intn(30)
		}
	}
	kind := rng.Intn(5) // 0 static+noise 1 warming 2 cooling 3 stepping 4 extremes
	bx, by := rng.Intn(c.W), rng.Intn(c.H)
	pFFC, pReset := rng.PickInt(0, 2, 6), rng.PickInt(0, 0, 2)
	pFuture, future := rng.PickInt(0, 0, 3), 0
	for i := 0; i < n; i++ {
		if rng.Intn(100) < pReset {
			out = append(out, detFrame{Reset: true})
		}
		t += step
		if rng.Chance(5) {
			t += time.Duration(rng.Intn(12)) * time.Second
		}
		if rng.Intn(100) < pFFC {
			last = t
		}
		// telemetry whose last-FFC time lies AHEAD of time-on (counter wrap, camera restart without a
		// 'clear'): by the rule time-on - last-FFC < 10 s these are FFC frames; afterwards the
		// telemetry goes straight to "more than 10 s ago"
		if future > 0 {
			future--
			if future == 0 {
				last = t - 11*time.Second - time.Duration(rng.Intn(5000))*time.Millisecond
			}
		} else if rng.Intn(100) < pFuture {
			future = rng.Range(1, 4)
			last = t + time.Duration(rng.Range(1, 30))*time.Second
		}
		for y := range scene {
			for x := range scene[y] {
				switch kind {
				case 0:
					if rng.Chance(20) {
						scene[y][x] += rng.Range(-3, 3)
					}
				case 1:
					scene[y][x] += rng.Range(0, 2)
				case 2:
					scene[y][x] -= rng.Range(0, 2)
				case 3:
					if i%13 == 0 {
						scene[y][x] += rng.Range(-60, 60)
					}
				case 4:
					if rng.Chance(2) {
						scene[y][x] = rng.PickInt(0, 65535, level)
					}
				}
				if scene[y][x] < 0 {
					scene[y][x] = 0
				}
				if scene[y][x] > 65535 {
					scene[y][x] = 65535
				}
			}
		}
		pix := make([][]uint16, c.H)
		for y := range pix {
			pix[y] = make([]uint16, c.W)
			for x := range pix[y] {
				pix[y][x] = uint16(scene[y][x])
			}
		}
		if rng.Chance(60) {
			bx, by = (bx+rng.Range(0, 1))%c.W, (by+rng.Range(0, 1))%c.H
			hot := level + 400
			if hot > 65535 {
				hot = 65535
			}
			pix[by][bx] = uint16(hot)
			pix[(by+1)%c.H][bx] = uint16(hot)
		}
		out = append(out, detFrame{Pix: pix, TimeOn: t, LastFFC: last})
	}
	return out
}

type c15Sink struct {
	starts   []sinkOp
	stopFail func() bool
	open     bool
}

func (s *c15Sink) StopRecording() error {
	wasOpen := s.open
	s.open = false
	if wasOpen && s.stopFail != nil && s.stopFail() {
		return fmt.Errorf("scripted: stop failed")
	}
	return nil
}
func (s *c15Sink) StartRecording(bg *cptvframe.Frame, th uint16) error {
	s.starts = append(s.starts, sinkOp{Op: opStart, Thresh: th, Bg: bg.CreateCopy()})
	s.open = true
	return nil
}
func (s *c15Sink) WriteFrame(f *cptvframe.Frame) error { return nil }
func (s *c15Sink) CheckCanRecord() error               { return nil }

func c15Clamp(mean int, c detConfig) int {
	m := mean
	if c.TMin != 0 && m < int(c.TMin) {
		m = int(c.TMin)
	}
	if c.TMax != 0 && m > int(c.TMax) {
		m = int(c.TMax)
	}
	return m
}

func absInt(a int) int {
	if a < 0 {
		return -a
	}
	return a
}

func TestVerif_C15(t *testing.T) {
	c := vStart(t, "C15", "TestVerif_C15")
	defer c.Finish()
	n := c.N(30000, 3000000)
	for idx := int64(0); idx < n; idx++ {
		if !c.Mine(idx) {
			continue
		}
		rng := c.RNG(idx)
		cfg := detRandomConfig(rng, true)
		cfg.Delta = uint16(rng.PickInt(30, 100))
		cfg.Count = rng.PickInt(1, 2, 3)
		cfg.Gap = rng.PickInt(1, 2, 5)
		// scene level relative to [tmin, tmax]: below / inside / above
		level := rng.PickInt(1500, 2500, 3000, 3050, 3500, 5000)
		if rng.Chance(4) {
			level = rng.PickInt(0, 65400)
		}
		preview := 0
		if cfg.PreviewFrames > 0 {
			preview = 1
		}
		fps := cfg.PreviewFrames
		if fps == 0 {
			fps = rng.Range(1, 9)
		}
		if cfg.PreviewFrames == 45 {
			preview, fps = 5, 9
		}
		cfg.FPS = fps
		nf := rng.Range(10, 80)
		if cfg.PreviewFrames == 45 {
			nf = rng.Range(50, 140)
		}
		if idx%300 == 150 {
			// Boson-sized frames and warm scenes: sums over the interior exceed 2^31
			cfg.W, cfg.H = 320, 256
			cfg.Edge = rng.PickInt(0, 1, 2)
			level = rng.PickInt(20000, 27000, 30000, 45000, 60000)
			cfg.TMin, cfg.TMax = uint16(rng.PickInt(0, 2000, 28000)), uint16(rng.PickInt(0, 31000, 64000))
			nf = cfg.PreviewFrames + rng.Range(3, 8) // the threshold follows the background once the preview frames are over
		}
		stream := c15Stream(rng, cfg, nf, level)
		// every fifth stream: the parser rejects some frames (a zero pixel inside the border), among
		// them the very first frame after each FFC period; a rejected frame changes nothing - the
		// first frame that IS accepted after the period re-seeds the background
		withBad := idx%5 == 2 && cfg.W < 100
		if withBad {
			was := false
			for i := range stream {
				f := &stream[i]
				if f.Reset {
					was = false
					continue
				}
				if was && !f.affected() {
					f.Bad, was = true, false
					continue
				}
				if vMix(uint64(idx)*7919+uint64(i))%23 == 0 {
					f.Bad = true
					continue
				}
				was = f.affected()
			}
		}
		ffcStated := 0
		if idx%3 == 1 {
			// the telemetry's FFC state word says "running" a frame or two before the reported FFC
			// time moves (idx%6 == 4) or on every affected frame (idx%6 == 1); the rule is the 10 s one alone
			ffcStated = paintFFCStates(stream, int(idx%6/3))
		}
		badAt := -1
		c.Case(idx, func() interface{} { return detStreamDesc(cfg, stream, badAt)() }, func() {
			sink := &c15Sink{}
			c.Count("frames_with_ffc_state_running", int64(ffcStated))
			if idx%4 == 0 {
				// a failing StopRecording (at a reset, at the end of a recording) must not keep the
				// background from being re-seeded
				frng := vNewRNG(uint64(idx), 15)
				sink.stopFail = func() bool { return frng.Chance(70) }
				c.Count("streams_with_failing_stops", 1)
			}
			flag := &motionFlag{}
			mc := cfg.motionConfig()
			rc := &recorder.RecorderConfig{MinSecs: 1, MaxSecs: 2, PreviewSecs: preview, Window: window.Window{NoWindow: true}}
			var parse func([]byte, *cptvframe.Frame, int) error
			if withBad {
				// raw "frames" carry an index into the stream; the parser fills in picture and
				// telemetry as the camera's parser does and rejects the marked ones
				parse = func(raw []byte, out *cptvframe.Frame, edge int) error {
					k := int(binary.LittleEndian.Uint32(raw))
					stream[k].toFrame(out, k)
					if stream[k].Bad {
						return &lepton3.BadFrameErr{Cause: errScriptedBad}
					}
					return nil
				}
			}
			mp := NewMotionProcessor(parse, &mc, rc, &config.Location{}, flag, sink, cfg.cam(), nil, new(recorder.NoWriteRecorder))
			d := mp.motionDetector
			if d.previewFrames != cfg.PreviewFrames {
				panic(fmt.Sprintf("harness: previewFrames %d != %d", d.previewFrames, cfg.PreviewFrames))
			}
			frame := cptvframe.NewFrame(cfg.cam())
			updates := 0     // non-FFC frames since start/reset
			needSeed := true // next non-FFC frame must (re)seed the background
			prevAffected := false
			prevBg := clonePix(d.background.Pix)
			recomputes, reseeds := 0, 0
			h := vNewHash().Str(cfg.String())
			for i := range stream {
				f := &stream[i]
				if f.Reset {
					mp.Reset(cfg.cam())
					updates = 0
					needSeed = true
					continue
				}
				prevThresh := int(d.tempThresh)
				starts := len(sink.starts)
				if withBad {
					var raw [4]byte
					binary.LittleEndian.PutUint32(raw[:], uint32(i))
					err := mp.Process(raw[:])
					if _, isBad := err.(*lepton3.BadFrameErr); isBad != f.Bad {
						badAt = i
						c.Violation("bad-frame-classification", "", fmt.Sprintf("frame %d: parser rejected it = %v, Process returned %v", i, f.Bad, err))
						return
					}
					if f.Bad {
						c.Count("rejected_frames", 1)
						if prevAffected && !f.affected() {
							c.Count("rejected_frames_right_after_an_ffc_period", 1)
						}
						continue
					}
				} else {
					f.toFrame(frame, i)
					mp.ProcessFrame(frame)
				}
				c.Count("frames", 1)
				aff := f.affected()
				if aff {
					prevAffected = true
					c.Count("ffc_frames", 1)
					// threshold may not move to something that is not the clamped mean
				} else {
					updates++
					if prevAffected {
						needSeed = true
					}
					prevAffected = false
					// envelope, border replication, re-seed
					sum := int64(0) // 64 bits also in the 32-bit build: a Boson frame's sum exceeds 2^31
					changed := false
					for y := 0; y < cfg.H; y++ {
						for x := 0; x < cfg.W; x++ {
							bg := d.background.Pix[y][x]
							if cfg.interior(y, x) {
								if bg > f.Pix[y][x] {
									badAt = i
									c.Violation("background-warmer-than-frame", "", fmt.Sprintf("frame %d pixel (%d,%d): background %d > frame %d", i, y, x, bg, f.Pix[y][x]))
									return
								}
								if needSeed && bg != f.Pix[y][x] {
									badAt = i
									c.Violation("background-not-reseeded", "", fmt.Sprintf("frame %d is the first non-FFC frame after an FFC/reset/start; pixel (%d,%d): background %d != frame %d", i, y, x, bg, f.Pix[y][x]))
									return
								}
								if bg != prevBg[y][x] {
									changed = true
								}
								sum += int64(bg)
							} else {
								ny, nx := y, x
								if ny < cfg.Edge {
									ny = cfg.Edge
								}
								if ny >= cfg.H-cfg.Edge {
									ny = cfg.H - cfg.Edge - 1
								}
								if nx < cfg.Edge {
									nx = cfg.Edge
								}
								if nx >= cfg.W-cfg.Edge {
									nx = cfg.W - cfg.Edge - 1
								}
								if bg != d.background.Pix[ny][nx] {
									badAt = i
									c.Violation("border-not-replicated", "", fmt.Sprintf("frame %d border pixel (%d,%d)=%d, nearest interior (%d,%d)=%d", i, y, x, bg, ny, nx, d.background.Pix[ny][nx]))
									return
								}
							}
						}
					}
					if needSeed {
						reseeds++
						changed = true
					}
					needSeed = false
					mean := int(sum / int64(cfg.interiorN()))
					want := c15Clamp(mean, cfg)
					got := int(d.tempThresh)
					class := fmt.Sprintf("tmin-set=%v tmax-set=%v mean-vs-range=%s preview-frames-zero=%v", cfg.TMin != 0, cfg.TMax != 0, c15Where(mean, cfg), cfg.PreviewFrames == 0)
					if changed && updates > cfg.PreviewFrames {
						recomputes++
						if absInt(got-want) > 1 {
							badAt = i
							c.Violation("threshold-not-clamped-mean", class, fmt.Sprintf("frame %d: background changed (update #%d > preview frames %d): threshold %d, interior mean %d, clamped to [%d,%d] = %d", i, updates, cfg.PreviewFrames, got, mean, cfg.TMin, cfg.TMax, want))
							return
						}
					} else if got != prevThresh && absInt(got-want) > 1 {
						badAt = i
						c.Violation("threshold-recomputed-wrongly", class, fmt.Sprintf("frame %d: threshold moved %d -> %d, clamped mean is %d", i, prevThresh, got, want))
						return
					}
					prevBg = clonePix(d.background.Pix)
				}
				if aff && int(d.tempThresh) != prevThresh {
					// recomputation during an FFC frame must still be the clamped mean of the (frozen) background
					sum := int64(0) // 64 bits also in the 32-bit build: a Boson frame's sum exceeds 2^31
					for y := cfg.Edge; y < cfg.H-cfg.Edge; y++ {
						for x := cfg.Edge; x < cfg.W-cfg.Edge; x++ {
							sum += int64(d.background.Pix[y][x])
						}
					}
					if want := c15Clamp(int(sum/int64(cfg.interiorN())), cfg); absInt(int(d.tempThresh)-want) > 1 {
						badAt = i
						c.Violation("threshold-recomputed-wrongly", "during FFC", fmt.Sprintf("frame %d (FFC): threshold moved %d -> %d, clamped mean %d", i, prevThresh, d.tempThresh, want))
						return
					}
				}
				// snapshot handed to the sink
				for _, st := range sink.starts[starts:] {
					if st.Thresh != d.tempThresh {
						badAt = i
						c.Violation("recording-stores-wrong-threshold", "", fmt.Sprintf("frame %d: StartRecording got threshold %d, detector threshold at trigger %d", i, st.Thresh, d.tempThresh))
						return
					}
					for y := range st.Bg.Pix {
						for x := range st.Bg.Pix[y] {
							if st.Bg.Pix[y][x] != d.background.Pix[y][x] {
								badAt = i
								c.Violation("recording-stores-wrong-background", "", fmt.Sprintf("frame %d: StartRecording background (%d,%d)=%d, detector background %d", i, y, x, st.Bg.Pix[y][x], d.background.Pix[y][x]))
								return
							}
						}
					}
					if !st.Bg.Status.BackgroundFrame {
						c.Violation("background-not-flagged", "", "background frame passed to StartRecording is not flagged as background")
						return
					}
					c.Count("recording_starts_checked", 1)
				}
				h.Int(int(d.tempThresh))
			}
			c.Count("threshold_recomputations", int64(recomputes))
			if cfg.W >= 320 {
				c.Count("boson_sized_streams", 1)
			}
			c.Count("reseeds", int64(reseeds))
			c.Seen("classes", fmt.Sprintf("tmin=%v tmax=%v level=%s pf0=%v", cfg.TMin != 0, cfg.TMax != 0, c15Where(level, cfg), cfg.PreviewFrames == 0))
			if recomputes > 0 {
				c.Nontrivial(h.U64(uint64(idx)).Sum())
				c.Sample("stream", func() interface{} {
					return map[string]interface{}{"config": cfg.String(), "scene_level": level, "frames": len(stream), "threshold_recomputations": recomputes, "reseeds": reseeds, "final_threshold": d.tempThresh}
				})
			}
		})
	}
}

func c15Where(mean int, c detConfig) string {
	if c.TMin != 0 && mean < int(c.TMin) {
		return "below"
	}
	if c.TMax != 0 && mean > int(c.TMax) {
		return "above"
	}
	return "inside"
}
