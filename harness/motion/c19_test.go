//go:build verif
// +build verif

package motion

// C19 - frame ring buffer returns exactly the retained history, oldest first.
// Reference-model monitor (RefRing) compared with the real FrameLoop after
// every operation; exhaustive BFS over the reachable product state for small
// capacities, random long sequences for larger ones.

import (
	"fmt"
	"reflect"
	"strconv"
	"strings"
	"sync/atomic"
	"testing"

	"github.com/TheCacophonyProject/go-cptv/cptvframe"
)

type vCam struct{ x, y, fps int }

func (c vCam) ResX() int { return c.x }
func (c vCam) ResY() int { return c.y }
func (c vCam) FPS() int  { return c.fps }

// refRing is written from the property statement: absolute epoch numbers, no
// indices. Epoch n = number of Moves since creation/reset; the frame stamped
// in epoch k has id stamp[k].
type refRing struct {
	N     int
	n     int
	m     int
	stamp []int
}

func newRefRing(N int) *refRing { return &refRing{N: N} }
func (r *refRing) Stamp(id int) {
	for len(r.stamp) <= r.n {
		r.stamp = append(r.stamp, -1)
	}
	r.stamp[r.n] = id
}
func (r *refRing) Move()        { r.n++ }
func (r *refRing) SetAsOldest() { r.m = r.n }
func (r *refRing) Reset()       { r.n, r.m, r.stamp = 0, 0, r.stamp[:0] }
func (r *refRing) alive() bool  { return r.n-r.m < r.N }
func (r *refRing) low() int {
	lo := r.n - r.N + 1
	if lo < 0 {
		lo = 0
	}
	if r.alive() && r.m > lo {
		lo = r.m
	}
	return lo
}
func (r *refRing) History() []int { return r.stamp[r.low() : r.n+1] }
func (r *refRing) Oldest() int {
	if r.alive() {
		return r.stamp[r.m]
	}
	return r.stamp[r.n-r.N+1]
}
func (r *refRing) Recent() (int, bool) {
	if r.n >= 1 && r.N >= 2 {
		return r.stamp[r.n-1], true
	}
	return 0, false
}

type ringPair struct {
	fl     *FrameLoop
	ref    *refRing
	nextID int
	held   *cptvframe.Frame // the CopyRecent result of the previous check, and what it was
	heldID int
}

func newRingPair(N int) *ringPair {
	p := &ringPair{fl: NewFrameLoop(N, vCam{2, 2, 1}), ref: newRefRing(N), nextID: 1}
	p.stamp()
	return p
}

func (p *ringPair) stamp() {
	id := p.nextID
	p.nextID++
	f := p.fl.Current()
	f.Status.FrameCount = id
	f.Pix[0][0] = uint16(id)
	p.ref.Stamp(id)
}

const (
	opMove = iota
	opMark
	opReset
)

var ringOpNames = []string{"move", "set-as-oldest", "reset"}

func (p *ringPair) apply(op int) {
	switch op {
	case opMove:
		ret := p.fl.Move()
		p.ref.Move()
		if ret != p.fl.Current() {
			panic("Move() did not return the new current frame")
		}
		p.stamp()
	case opMark:
		p.fl.SetAsOldest()
		p.ref.SetAsOldest()
	case opReset:
		p.fl.Reset()
		p.ref.Reset()
		p.stamp()
	}
}

func ids(fs []*cptvframe.Frame) []int {
	out := make([]int, len(fs))
	for i, f := range fs {
		out[i] = f.Status.FrameCount
	}
	return out
}

// check evaluates the oracle; returns "" or a description of the mismatch.
func (p *ringPair) check() (kind, detail string) {
	got := ids(p.fl.GetHistory())
	want := p.ref.History()
	if len(got) != len(want) {
		return "history", fmt.Sprintf("GetHistory ids %v, model %v", got, want)
	}
	for i := range got {
		if got[i] != want[i] {
			return "history", fmt.Sprintf("GetHistory ids %v, model %v", got, want)
		}
	}
	if len(got) > p.ref.N {
		return "history-capacity", fmt.Sprintf("history of %d frames exceeds capacity %d", len(got), p.ref.N)
	}
	if o := p.fl.Oldest().Status.FrameCount; o != p.ref.Oldest() {
		return "oldest", fmt.Sprintf("Oldest id %d, model %d", o, p.ref.Oldest())
	}
	if r, ok := p.ref.Recent(); ok {
		c := p.fl.CopyRecent()
		if c.Status.FrameCount != r || int(c.Pix[0][0]) != r&0xffff {
			return "recent", fmt.Sprintf("CopyRecent id %d, model %d", c.Status.FrameCount, r)
		}
		// a copy, not the slot itself
		c.Pix[0][0] ^= 0xffff
		c2 := p.fl.CopyRecent()
		if int(c2.Pix[0][0]) != r&0xffff {
			return "recent-alias", "CopyRecent returned an alias of the ring slot"
		}
		// every call hands out a frame of its own: a copy kept by one caller (a D-Bus client
		// being served, a test holding it) stays what it was, whatever is asked for later
		if c2 == c {
			return "recent-alias", "two CopyRecent calls returned the same frame object"
		}
		if p.held != nil && (p.held.Status.FrameCount != p.heldID || int(p.held.Pix[0][0]) != p.heldID&0xffff) {
			return "recent-copy-changed-later", fmt.Sprintf("a copy taken earlier as frame %d now reads frame %d (pixel %d)", p.heldID, p.held.Status.FrameCount, p.held.Pix[0][0])
		}
		p.held, p.heldID = c2, r
	}
	if p.fl.Current().Status.FrameCount != p.ref.stamp[p.ref.n] {
		return "current", "Current() is not the frame of this epoch"
	}
	return "", ""
}

func (p *ringPair) key() string {
	age := -1
	if p.ref.alive() {
		age = p.ref.n - p.ref.m
	}
	n := p.ref.n
	if n > p.ref.N {
		n = p.ref.N
	}
	return fmt.Sprintf("N%d/%s/n%d,a%d", p.ref.N, implState(p.fl), n, age)
}

// implState prints every scalar field of the ring (indices, flags, counters - whatever the
// implementation keeps besides the frames themselves) without naming them here.
func implState(fl *FrameLoop) string {
	v := reflect.ValueOf(fl).Elem()
	var sb strings.Builder
	for i := 0; i < v.NumField(); i++ {
		f := v.Field(i)
		switch f.Kind() {
		case reflect.Int, reflect.Int8, reflect.Int16, reflect.Int32, reflect.Int64:
			fmt.Fprintf(&sb, "%s=%d,", v.Type().Field(i).Name, f.Int())
		case reflect.Uint, reflect.Uint8, reflect.Uint16, reflect.Uint32, reflect.Uint64:
			fmt.Fprintf(&sb, "%s=%d,", v.Type().Field(i).Name, f.Uint())
		case reflect.Bool:
			fmt.Fprintf(&sb, "%s=%v,", v.Type().Field(i).Name, f.Bool())
		}
	}
	return sb.String()
}

func opsString(ops []byte) string {
	b := make([]byte, len(ops))
	for i, o := range ops {
		b[i] = "MSR"[o]
	}
	return string(b)
}

func TestVerif_C19(t *testing.T) {
	c := vStart(t, "C19", "TestVerif_C19")
	defer c.Finish()
	idx := int64(0)

	// Part 1: exhaustive reachability of the product state, capacities 1..8.
	maxCap := int(c.N(8, 12))
	open := false
	for N := 1; N <= maxCap; N++ {
		type node struct{ ops []byte }
		seen := map[string]bool{}
		start := newRingPair(N)
		seen[start.key()] = true
		queue := []node{{nil}}
		for len(queue) > 0 {
			cur := queue[0]
			queue = queue[1:]
			for op := 0; op < 3; op++ {
				ops := append(append([]byte{}, cur.ops...), byte(op))
				myIdx := idx
				idx++
				// BFS needs every transition to discover states, so all shards
				// walk the graph; only the owner evaluates/records the oracle.
				p := newRingPair(N)
				for _, o := range ops[:len(ops)-1] {
					p.apply(int(o))
				}
				from := p.key()
				p.apply(op)
				k := p.key()
				if c.Mine(myIdx) {
					c.Case(myIdx, func() interface{} {
						return map[string]interface{}{"capacity": N, "ops": opsString(ops), "legend": "M=stamp+Move S=SetAsOldest R=Reset"}
					}, func() {
						kind, detail := p.check()
						if kind != "" {
							c.Violation("ring-"+kind, fmt.Sprintf("capacity %d", N), detail+" after ops "+opsString(ops))
						}
						c.Nontrivial(vNewHash().Str(from).Int(op).Sum())
						c.Seen("product_states", k)
						c.Seen("impl_states", fmt.Sprintf("N%d/%s", N, implState(p.fl)))
						c.Count("bfs_transitions", 1)
						c.Sample("bfs", func() interface{} {
							return map[string]interface{}{"capacity": N, "ops": opsString(ops), "history_ids": ids(p.fl.GetHistory()), "oldest": p.fl.Oldest().Status.FrameCount}
						})
					})
				}
				if !seen[k] && !open {
					seen[k] = true
					queue = append(queue, node{ops})
				}
			}
			// an implementation that keeps an ever-growing counter has no finite state space: the
			// walk is given up (and the claim of completeness with it), the other parts still run
			if len(seen) > 4000 && !open {
				open = true
				c.Note("bfs_state_space_did_not_close", fmt.Sprintf("capacity %d: more than 4000 product states", N))
			}
		}
	}
	if !open {
		c.SetExhaustive(true)
	}

	// Part 1b: observation is not free of side effects in every implementation (GetHistory
	// reuses an internal slice), so the monitor must not only look after every operation:
	// from every reachable state, observe, apply k in 1..3N+1 operations WITHOUT looking, observe again.
	for N := 1; N <= 6; N++ {
		seen := map[string]bool{}
		start := newRingPair(N)
		seen[start.key()] = true
		queue := [][]byte{nil}
		for len(queue) > 0 {
			cur := queue[0]
			queue = queue[1:]
			for k := 1; k <= 3*N+1; k++ {
				for tail := 0; tail < 3; tail++ { // the unobserved stretch: k moves, optionally ending in mark / reset+move
					myIdx := idx
					idx++
					if !c.Mine(myIdx) {
						continue
					}
					cur, k, tail, N := cur, k, tail, N
					c.Case(myIdx, func() interface{} {
						return map[string]interface{}{"capacity": N, "prefix_ops": opsString(cur), "then": "observe", "unobserved_moves": k, "tail": []string{"none", "set-as-oldest", "move after set-as-oldest"}[tail]}
					}, func() {
						p := newRingPair(N)
						for _, o := range cur {
							p.apply(int(o))
						}
						if kind, detail := p.check(); kind != "" {
							c.Violation("ring-"+kind, fmt.Sprintf("capacity %d", N), detail)
							return
						}
						for i := 0; i < k; i++ {
							p.apply(opMove)
						}
						switch tail {
						case 1:
							p.apply(opMark)
						case 2:
							p.apply(opMark)
							p.apply(opMove)
						}
						if kind, detail := p.check(); kind != "" {
							c.Violation("ring-"+kind, fmt.Sprintf("capacity %d; sparse observation", N), fmt.Sprintf("%s after prefix %s, an observation, then %d unobserved moves (tail %d)", detail, opsString(cur), k, tail))
							return
						}
						c.Count("sparse_observation_pairs", 1)
						c.Nontrivial(vNewHash().Int(N).Bytes(cur).Int(k).Int(tail).Int(77).Sum())
					})
				}
			}
			for op := 0; op < 3; op++ {
				ops := append(append([]byte{}, cur...), byte(op))
				p := newRingPair(N)
				for _, o := range ops {
					p.apply(int(o))
				}
				if k := p.key(); !seen[k] && len(seen) <= 4000 {
					seen[k] = true
					queue = append(queue, ops)
				}
			}
		}
	}

	// Part 2: random long sequences, capacities up to 64 (and the detector's
	// usage shape: gap+1 rings with occasional marks).
	nseq := c.N(400, 100000)
	for s := int64(0); s < nseq; s++ {
		myIdx := idx
		idx++
		if !c.Mine(myIdx) {
			continue
		}
		rng := c.RNG(myIdx)
		N := rng.Range(1, 64)
		if rng.Chance(30) {
			N = rng.Range(1, 6)
		}
		nops := int(c.N(2000, 10000))
		pMark, pReset := rng.Range(0, 30), rng.Range(0, 3)
		var trace []byte
		c.Case(myIdx, func() interface{} {
			t := trace
			if len(t) > 400 {
				t = t[len(t)-400:]
			}
			return map[string]interface{}{"capacity": N, "ops_tail": opsString(t), "ops_total": len(trace)}
		}, func() {
			p := newRingPair(N)
			h := vNewHash().Int(N)
			lookMode, nextLook := int(myIdx%3), 0
			for i := 0; i < nops; i++ {
				op := opMove
				r := rng.Intn(100)
				if r < pMark {
					op = opMark
				} else if r < pMark+pReset {
					op = opReset
				}
				trace = append(trace, byte(op))
				p.apply(op)
				h.Int(op)
				c.Count("random_ops", 1)
				// look only now and then (every op, sparse, or a whole number of laps apart)
				if nextLook > i {
					continue
				}
				switch lookMode {
				case 0:
					nextLook = i + 1
				case 1:
					nextLook = i + 1 + rng.Intn(2*N+2)
				default:
					nextLook = i + N*rng.Range(1, 3)
				}
				c.Count("random_observations", 1)
				if kind, detail := p.check(); kind != "" {
					c.Violation("ring-"+kind, fmt.Sprintf("capacity %d", N), detail)
					return
				}
			}
			c.Nontrivial(h.Sum())
		})
	}

	// Part: several rings of the same capacity and resolution alive at once (the processor owns
	// three: pre-trigger frames, floored frames, diff frames; an old and a new processor overlap
	// at a reconnect): each ring returns its own history, whatever the others do.
	ntw := c.N(200, 20000)
	for s := int64(0); s < ntw; s++ {
		myIdx := idx
		idx++
		if !c.Mine(myIdx) {
			continue
		}
		rng := c.RNG(myIdx)
		N := rng.Range(1, 12)
		k := rng.Range(2, 4)
		var trace []string
		c.Case(myIdx, func() interface{} {
			t := trace
			if len(t) > 200 {
				t = t[len(t)-200:]
			}
			return map[string]interface{}{"capacity": N, "rings_alive_together": k, "ops_tail": t}
		}, func() {
			rings := make([]*ringPair, k)
			for i := range rings {
				rings[i] = newRingPair(N)
				rings[i].nextID = 1000*(i+1) + 1
				rings[i].fl.Reset()
				rings[i].ref.Reset()
				rings[i].stamp()
			}
			for i := 0; i < 600; i++ {
				w := rng.Intn(k)
				op := opMove
				if r := rng.Intn(100); r < 10 {
					op = opMark
				} else if r < 12 {
					op = opReset
				}
				if rng.Chance(1) {
					// a ring is replaced by a new one of the same shape (reconnect)
					rings[w] = newRingPair(N)
					rings[w].nextID = 1000*(w+1) + 500 + i
					trace = append(trace, fmt.Sprintf("%d:new", w))
				} else {
					rings[w].apply(op)
					trace = append(trace, fmt.Sprintf("%d:%s", w, ringOpNames[op]))
				}
				for j, p := range rings {
					if kind, detail := p.check(); kind != "" {
						c.Violation("ring-"+kind, fmt.Sprintf("capacity %d; %d rings alive", N, k), fmt.Sprintf("ring %d after an operation on ring %d: %s", j, w, detail))
						return
					}
				}
			}
			c.Count("twin_ring_runs", 1)
			c.Nontrivial(vNewHash().U64(uint64(myIdx)).Int(N).Int(k).Sum())
		})
	}

	// Part: a reader takes CopyRecent while the producer fills Current() and moves on, as the
	// D-Bus snapshot path does next to the frame loop. Small rings (2..4 slots: the slot read from
	// is refilled soonest there). Every copy must be one whole frame, and one that was the most
	// recently completed frame at some moment during the call.
	ncc := c.N(6, 96)
	for s := int64(0); s < ncc; s++ {
		myIdx := idx
		idx++
		if !c.Mine(myIdx) {
			continue
		}
		N := 2 + int(myIdx%3)
		total := int(c.N(40000, 400000))
		c.Case(myIdx, func() interface{} {
			return map[string]interface{}{"capacity": N, "frames_produced": total, "reader": "CopyRecent in a loop on another goroutine"}
		}, func() {
			cam := vCam{8, 6, 9}
			fl := NewFrameLoop(N, cam)
			var produced int64 // number of the frame being filled; frames below it have been moved past
			var bad atomic.Value
			done := make(chan struct{})
			copies, distinct := 0, 0
			go func() {
				defer close(done)
				last := -1
				for atomic.LoadInt64(&produced) < int64(total) {
					lo := atomic.LoadInt64(&produced)
					f := fl.CopyRecent()
					hi := atomic.LoadInt64(&produced)
					id := f.Status.FrameCount
					v := f.Pix[0][0]
					for y := range f.Pix {
						for _, p := range f.Pix[y] {
							if p != v {
								bad.Store(fmt.Sprintf("copy of frame %d mixes pixel values %d and %d (producer was between frame %d and %d)", id, v, p, lo, hi))
								return
							}
						}
					}
					if id != 0 && uint16(id%60000+1) != v {
						bad.Store(fmt.Sprintf("copy carries frame number %d but the pixels of frame value %d", id, v))
						return
					}
					if int64(id) < lo-1 || int64(id) > hi {
						bad.Store(fmt.Sprintf("copy is frame %d, but the producer was filling frame %d when the call began and frame %d when it returned", id, lo, hi))
						return
					}
					if id != last {
						distinct++
						last = id
					}
					copies++
				}
			}()
			for n := 1; n <= total; n++ {
				atomic.StoreInt64(&produced, int64(n))
				f := fl.Current()
				v := uint16(n%60000 + 1)
				for y := range f.Pix {
					for x := range f.Pix[y] {
						f.Pix[y][x] = v
					}
				}
				f.Status.FrameCount = n
				fl.Move()
				if bad.Load() != nil {
					break
				}
			}
			atomic.StoreInt64(&produced, int64(total))
			<-done
			if b := bad.Load(); b != nil {
				c.Violation("ring-recent-copy-torn", fmt.Sprintf("capacity %d; concurrent reader", N), b.(string))
				return
			}
			c.Count("concurrent_recent_copies", int64(copies))
			c.Count("concurrent_recent_distinct_frames", int64(distinct))
			c.Nontrivial(vNewHash().U64(uint64(myIdx)).Int(N).Sum())
		})
	}

	// Part: a ring that has lived through more than 2^31 moves (over a year of frames on one
	// connection) on the 32-bit production word size: it still returns its full history. Only
	// in the 32-bit build (about a minute there; any int-sized bookkeeping has wrapped by then).
	if strconv.IntSize == 32 {
		myIdx := idx
		idx++
		if c.Mine(myIdx) {
			c.Case(myIdx, func() interface{} { return "capacity 3, 2^31+7 moves, then four stamped frames" }, func() {
				fl := NewFrameLoop(3, vCam{2, 2, 1})
				for i := uint64(0); i < 1<<31+7; i++ {
					fl.Move()
				}
				want := []int{}
				for id := 101; id <= 104; id++ {
					fl.Current().Status.FrameCount = id
					want = append(want, id)
					if id < 104 {
						fl.Move()
					}
				}
				want = want[len(want)-3:]
				got := ids(fl.GetHistory())
				if fmt.Sprint(got) != fmt.Sprint(want) {
					c.Violation("ring-history", "capacity 3 after 2^31 moves (32-bit)", fmt.Sprintf("GetHistory ids %v, expected the last three stamped frames %v", got, want))
					return
				}
				c.Count("rings_older_than_2^31_moves", 1)
				c.Nontrivial(vNewHash().U64(uint64(myIdx)).Sum())
			})
		}
	}
}
