//go:build verif
// +build verif

package motion

// Shared machinery for the detector monitors (C07, C08, C09, C15): stream
// generators with boundary-biased pixel values, the RefDetector reference
// model, and helpers to run real detectors / processors in lock-step.

import (
	"fmt"
	"time"

	config "github.com/TheCacophonyProject/go-config"
	"github.com/TheCacophonyProject/go-cptv/cptvframe"
)

type detConfig struct {
	W, H, FPS     int
	Edge          int
	Gap           int
	Count         int
	Delta         uint16
	Temp          uint16
	TMin, TMax    uint16
	Warmer        bool
	OneDiff       bool
	Dynamic       bool
	PreviewFrames int
	Verbose       bool // thermal-motion.verbose: debug statistics only, must not change any verdict
}

func (c detConfig) String() string {
	return fmt.Sprintf("%dx%d fps=%d edge=%d gap=%d count=%d delta=%d temp=%d tmin=%d tmax=%d warmer=%v onediff=%v dynamic=%v previewFrames=%d verbose=%v",
		c.W, c.H, c.FPS, c.Edge, c.Gap, c.Count, c.Delta, c.Temp, c.TMin, c.TMax, c.Warmer, c.OneDiff, c.Dynamic, c.PreviewFrames, c.Verbose)
}

func (c detConfig) motionConfig() config.ThermalMotion {
	return config.ThermalMotion{
		DynamicThreshold: c.Dynamic,
		TempThreshMin:    c.TMin,
		TempThreshMax:    c.TMax,
		TempThresh:       c.Temp,
		DeltaThresh:      c.Delta,
		CountThresh:      c.Count,
		FrameCompareGap:  c.Gap,
		UseOneDiffOnly:   c.OneDiff,
		TriggerFrames:    1,
		WarmerOnly:       c.Warmer,
		EdgePixels:       c.Edge,
		Verbose:          c.Verbose,
	}
}

func (c detConfig) cam() vCam      { return vCam{c.W, c.H, c.FPS} }
func (c detConfig) interiorN() int { return (c.W - 2*c.Edge) * (c.H - 2*c.Edge) }
func (c detConfig) interior(y, x int) bool {
	return y >= c.Edge && y < c.H-c.Edge && x >= c.Edge && x < c.W-c.Edge
}

// detFrame is one generated input frame or event.
type detFrame struct {
	Reset   bool // a camera reset precedes nothing; this entry IS the reset event
	Pix     [][]uint16
	TimeOn  time.Duration
	LastFFC time.Duration
	// FFCState is the state word the telemetry carries next to the times ("never", "imminent",
	// "running", "complete"); every FFC rule in the properties is the 10 s time rule alone
	FFCState string
	// Bad: the parser rejects this frame (used by streams that go through Process)
	Bad bool
}

// paintFFCStates fills in the telemetry's state word. mode 0: "running" on every frame the 10 s
// rule calls affected, "complete" elsewhere; mode 1: "running" on the (unaffected) frames just
// before the reported FFC time moves, as a camera reports it while its shutter is still closed.
func paintFFCStates(frames []detFrame, mode int) int {
	n := 0
	for i := range frames {
		f := &frames[i]
		if f.Reset {
			continue
		}
		f.FFCState = "complete"
		switch mode {
		case 0:
			if f.affected() {
				f.FFCState = "running"
				n++
			}
		default:
			for j := i + 1; j < len(frames) && j <= i+2; j++ {
				if !frames[j].Reset && frames[j].LastFFC != f.LastFFC && !f.affected() {
					f.FFCState = "running"
					n++
					break
				}
			}
		}
	}
	return n
}

func (f *detFrame) affected() bool { return !f.Reset && f.TimeOn-f.LastFFC < ffcPeriod }

func (f *detFrame) toFrame(out *cptvframe.Frame, id int) {
	for y := range f.Pix {
		copy(out.Pix[y], f.Pix[y])
	}
	out.Status = cptvframe.Telemetry{TimeOn: f.TimeOn, LastFFCTime: f.LastFFC, FrameCount: id, FFCState: f.FFCState}
}

func clonePix(p [][]uint16) [][]uint16 {
	out := make([][]uint16, len(p))
	for y := range p {
		out[y] = append([]uint16(nil), p[y]...)
	}
	return out
}

// ---------------------------------------------------------------- RefDetector
// Written from the property statement (fixed threshold, FFC-free): keeps every
// frame since the last reset; no rings, no in-place diff frames.

type refDetector struct {
	cfg  detConfig
	hist [][][]uint16
}

func (r *refDetector) Reset() { r.hist = nil }

func (r *refDetector) clampT(v uint16) int {
	if v < r.cfg.Temp {
		return int(r.cfg.Temp)
	}
	return int(v)
}

func (r *refDetector) diff(n int, y, x int) int {
	if n == 0 {
		return 0
	}
	ref := n - r.cfg.Gap
	if ref < 0 {
		ref = 0
	}
	d := r.clampT(r.hist[n][y][x]) - r.clampT(r.hist[ref][y][x])
	if d < 0 {
		if r.cfg.Warmer {
			return 0
		}
		return -d
	}
	return d
}

// Detect returns the expected motion verdict and the changed-pixel count.
func (r *refDetector) Detect(pix [][]uint16) (bool, int) {
	r.hist = append(r.hist, clonePix(pix))
	n := len(r.hist) - 1
	if n == 0 {
		return false, 0
	}
	count := 0
	c := r.cfg
	for y := c.Edge; y < c.H-c.Edge; y++ {
		for x := c.Edge; x < c.W-c.Edge; x++ {
			if r.diff(n, y, x) > int(c.Delta) && (c.OneDiff || r.diff(n-1, y, x) > int(c.Delta)) {
				count++
			}
		}
	}
	return count >= c.Count, count
}

// ---------------------------------------------------------------- generators

func detRandomConfig(rng *vRNG, dynamic bool) detConfig {
	c := detConfig{}
	switch rng.Intn(8) {
	case 0:
		c.W, c.H = 4, 4
	case 1:
		c.W, c.H = 12, 10
	case 2:
		c.W, c.H = 7, 9
	default:
		c.W, c.H = rng.Range(4, 12), rng.Range(4, 10)
	}
	c.FPS = rng.Range(1, 9)
	mn := c.W
	if c.H < mn {
		mn = c.H
	}
	for {
		c.Edge = rng.Range(0, 3)
		if 2*c.Edge < mn {
			break
		}
	}
	c.Gap = rng.PickInt(1, 1, 2, 3, 5, 45)
	in := c.interiorN()
	c.Count = rng.PickInt(1, 1, 2, 3, in, in+1) // count-thresh >= 1 (C07's domain; C09 adds 0 itself)
	if rng.Chance(20) {
		c.Count = rng.Range(1, in)
	}
	c.Delta = uint16(rng.PickInt(0, 1, 30, 30, 200, 65534))
	c.Temp = uint16(rng.PickInt(0, 3000, 3000, 28000, 65535))
	c.Warmer = rng.Bool()
	c.OneDiff = rng.Bool()
	c.Dynamic = dynamic
	c.Verbose = rng.Chance(15)
	if !dynamic && rng.Chance(40) {
		// temp-thresh-min/max belong to the dynamic threshold; with a fixed threshold they
		// may be set (e.g. left over in config.toml) and must not matter
		t := int(c.Temp)
		pick := func(vals ...int) uint16 {
			v := vals[rng.Intn(len(vals))]
			if v < 1 {
				v = 1
			}
			if v > 65535 {
				v = 65535
			}
			return uint16(v)
		}
		switch rng.Intn(3) {
		case 0:
			c.TMin = pick(t+1, t+500, t+int(c.Delta)+5)
		case 1:
			c.TMax = pick(t-1, t-500, t/2+1)
		default:
			c.TMin, c.TMax = pick(t+100), pick(t+1000)
		}
	}
	if dynamic {
		c.PreviewFrames = rng.PickInt(0, 1, 9, 45)
		if rng.Bool() {
			c.TMin = uint16(rng.PickInt(2000, 2900, 3100))
		}
		if rng.Bool() {
			c.TMax = uint16(rng.PickInt(2950, 3200, 4000))
		}
		if c.TMin != 0 && c.TMax != 0 && c.TMin > c.TMax {
			c.TMin, c.TMax = c.TMax, c.TMin
		}
		if rng.Chance(5) && c.TMin != 0 {
			c.TMax = c.TMin
		}
		c.Temp = uint16(rng.PickInt(2900, 3000, 3000))
	}
	return c
}

// palette of values around the thresholds
func detPalette(c detConfig) []uint16 {
	T, D := int(c.Temp), int(c.Delta)
	cand := []int{T - 1, T, T + 1, T + D - 1, T + D, T + D + 1, T + 2*D + 1, T + 2*D + 2, T - D - 1, 0, 1, 65535, 65534, T / 2, T + 500}
	out := []uint16{}
	for _, v := range cand {
		if v >= 0 && v <= 65535 {
			out = append(out, uint16(v))
		}
	}
	return out
}

// detStream generates n FFC-free frames (plus optional reset events) with
// sticky pixels and boundary-biased changes.
func detStream(rng *vRNG, c detConfig, n int, pReset int) []detFrame {
	pal := detPalette(c)
	cur := make([][]uint16, c.H)
	for y := range cur {
		cur[y] = make([]uint16, c.W)
		for x := range cur[y] {
			cur[y][x] = pal[rng.Intn(len(pal))]
		}
	}
	out := []detFrame{}
	mode := rng.Intn(4)
	t := time.Minute
	for i := 0; i < n; i++ {
		if pReset > 0 && rng.Intn(100) < pReset {
			out = append(out, detFrame{Reset: true})
		}
		// number of pixels to change this frame: near count-thresh, or none, or many
		var k int
		switch rng.Intn(6) {
		case 0:
			k = 0
		case 1:
			k = c.Count - 1
		case 2:
			k = c.Count
		case 3:
			k = c.Count + 1
		case 4:
			k = rng.Range(0, c.W*c.H)
		default:
			k = rng.Range(0, 3)
		}
		for j := 0; j < k; j++ {
			var y, x int
			if mode == 0 || rng.Chance(70) {
				// prefer the interior and its boundary rows
				y, x = rng.Range(0, c.H-1), rng.Range(0, c.W-1)
				if rng.Chance(50) && c.interiorN() > 0 {
					y, x = rng.Range(c.Edge, c.H-c.Edge-1), rng.Range(c.Edge, c.W-c.Edge-1)
				}
			} else {
				y, x = rng.Range(0, c.H-1), rng.Range(0, c.W-1)
			}
			if rng.Chance(75) {
				cur[y][x] = pal[rng.Intn(len(pal))]
			} else {
				cur[y][x] = uint16(rng.Intn(65536))
			}
		}
		t += time.Second / time.Duration(c.FPS)
		out = append(out, detFrame{Pix: clonePix(cur), TimeOn: t, LastFFC: 0})
		// sticky toggling: sometimes revert next frame to make two-diff patterns
		if rng.Chance(20) {
			mode = rng.Intn(4)
		}
	}
	return out
}

// blobStream: a scene wholly at or below temp-thresh (border included) in which a warm
// blob on fixed interior pixels blinks on and off in runs of 1-3 frames: cold frames
// separate warm episodes on the same pixels (two-diff / warmer-only history effects).
func blobStream(rng *vRNG, c detConfig, n int, pReset int) []detFrame {
	T := int(c.Temp)
	span := 300
	if span > T {
		span = T
	}
	cold := func() uint16 { return uint16(T - rng.Intn(span+1)) }
	bg := make([][]uint16, c.H)
	for y := range bg {
		bg[y] = make([]uint16, c.W)
		for x := range bg[y] {
			bg[y][x] = cold()
		}
	}
	type pt struct{ y, x int }
	var blob []pt
	want := c.Count + rng.Range(0, 2)
	if want > c.interiorN() {
		want = c.interiorN()
	}
	for tries := 0; len(blob) < want && tries < 1000; tries++ {
		p := pt{rng.Range(c.Edge, c.H-c.Edge-1), rng.Range(c.Edge, c.W-c.Edge-1)}
		dup := false
		for _, q := range blob {
			dup = dup || q == p
		}
		if !dup {
			blob = append(blob, p)
		}
	}
	hot := T + int(c.Delta) + 1 + rng.Intn(50)
	if hot > 65535 {
		hot = 65535
	}
	out := []detFrame{}
	on, left := false, rng.Range(1, 3)
	t := time.Minute
	for i := 0; i < n; i++ {
		if pReset > 0 && rng.Intn(100) < pReset {
			out = append(out, detFrame{Reset: true})
		}
		if left == 0 {
			on, left = !on, rng.Range(1, 3)
		}
		left--
		pix := clonePix(bg)
		if rng.Chance(30) {
			// cold noise: still at or below the threshold
			pix[rng.Range(0, c.H-1)][rng.Range(0, c.W-1)] = cold()
		}
		if on {
			for _, p := range blob {
				pix[p.y][p.x] = uint16(hot)
			}
		}
		t += time.Second / time.Duration(c.FPS)
		out = append(out, detFrame{Pix: pix, TimeOn: t, LastFFC: 0})
	}
	return out
}

// sceneStepStream: the whole scene steps between far-apart levels (plus sparse noise), so
// that per-frame totals over a Boson-sized interior exceed 2^31 and 2^32.
func sceneStepStream(rng *vRNG, c detConfig, n int) []detFrame {
	levels := []int{3000, 31000, 62000, 20000, 48000, 65535, 0}
	out := []detFrame{}
	t := time.Minute
	lvl := levels[rng.Intn(len(levels))]
	for i := 0; i < n; i++ {
		if rng.Chance(60) {
			lvl = levels[rng.Intn(len(levels))]
		}
		pix := make([][]uint16, c.H)
		for y := range pix {
			pix[y] = make([]uint16, c.W)
			for x := range pix[y] {
				pix[y][x] = uint16(lvl)
			}
		}
		for k := rng.Range(0, 5); k > 0; k-- {
			pix[rng.Range(0, c.H-1)][rng.Range(0, c.W-1)] = uint16(rng.Intn(65536))
		}
		t += time.Second / time.Duration(c.FPS)
		out = append(out, detFrame{Pix: pix, TimeOn: t, LastFFC: 0})
	}
	return out
}

func pixHash(h *vHash, p [][]uint16) {
	for _, row := range p {
		for _, v := range row {
			h.U64(uint64(v))
		}
	}
}
