//go:build verif
// +build verif

package motion

// C04 (window clock job) - recording starts iff ... the recording window is
// open at that moment: the real window.Window driven by an injected clock
// across absolute windows (incl. midnight wrap) and their exact boundaries.
// Also the C20 consequence inside MotionProcessor (one log line per interval
// for a condition recurring on every frame).

import (
	"bytes"
	"fmt"
	"log"
	"strings"
	"testing"
	"time"

	config "github.com/TheCacophonyProject/go-config"
	"github.com/TheCacophonyProject/go-cptv/cptvframe"
	"github.com/TheCacophonyProject/thermal-recorder/recorder"
	"github.com/TheCacophonyProject/window"
)

// windowOpenRef is the independent definition: time of day in [start, stop),
// wrapping over midnight when start > stop; start == stop means no window.
func windowOpenRef(startMin, stopMin int, now time.Time) bool {
	if startMin == stopMin {
		return true
	}
	day := time.Date(now.Year(), now.Month(), now.Day(), 0, 0, 0, 0, now.Location())
	d := now.Sub(day)
	s, e := time.Duration(startMin)*time.Minute, time.Duration(stopMin)*time.Minute
	if s < e {
		return d >= s && d < e
	}
	return d >= s || d < e
}

func hhmm(m int) string { return fmt.Sprintf("%02d:%02d", m/60, m%60) }

// windowSelfTest cross-checks the independent definition against
// window.Active() for every minute +-1 ns; a disagreement is a harness fault.
func windowSelfTest(t *testing.T) {
	for _, w := range [][2]int{{600, 660}, {1320, 360}, {0, 1439}, {1439, 0}, {721, 720}} {
		win, err := window.New(hhmm(w[0]), hhmm(w[1]), 0, 0)
		if err != nil {
			fmt.Println("VERIF-HARNESS-FAULT: window.New:", err)
			t.FailNow()
		}
		var now time.Time
		win.Now = func() time.Time { return now }
		base := time.Date(2021, 6, 1, 0, 0, 0, 0, time.UTC)
		for m := 0; m < 1440; m++ {
			for _, d := range []time.Duration{-1, 0, 1} {
				now = base.Add(time.Duration(m)*time.Minute + d)
				if got, want := win.Active(), windowOpenRef(w[0], w[1], now); got != want {
					fmt.Printf("VERIF-HARNESS-FAULT: window %s-%s at %v: Active()=%v, independent definition=%v\n", hhmm(w[0]), hhmm(w[1]), now, got, want)
					t.FailNow()
				}
			}
		}
	}
}

func TestVerif_C04Window(t *testing.T) {
	windowSelfTest(t)
	c := vStart(t, "C04", "TestVerif_C04Window")
	defer c.Finish()
	n := c.N(6000, 200000)
	for idx := int64(0); idx < n; idx++ {
		if !c.Mine(idx) {
			continue
		}
		rng := c.RNG(idx)
		startMin, stopMin := rng.Intn(1440), rng.Intn(1440)
		switch rng.Intn(6) {
		case 0:
			startMin, stopMin = 1320, 360 // spans midnight
		case 1:
			stopMin = (startMin + 1) % 1440
		case 2:
			stopMin = startMin // no window
		}
		cfg := fsmConfig{FPS: rng.Range(1, 3), Preview: rng.Range(0, 1), Trigger: rng.Range(0, 2), Min: 1, Max: rng.Range(1, 2)}
		if cfg.cap() < 1 {
			cfg.Trigger = 1
		}
		nev := rng.Range(20, 80)
		day := time.Date(2021, time.Month(rng.Range(1, 12)), rng.Range(1, 28), 0, 0, 0, 0, time.UTC)
		// start close to a boundary
		bnd := []int{startMin, stopMin}[rng.Intn(2)]
		now := day.Add(time.Duration(bnd)*time.Minute - time.Duration(rng.Intn(int(cfg.FPS*nev/2+1)))*time.Second/time.Duration(cfg.FPS))
		evs := make([]fsmEvent, nev)
		steps := []time.Duration{0, 1, time.Second / 9, time.Second, time.Second, time.Minute, time.Hour, 25 * time.Hour}
		for i := range evs {
			d := time.Second / time.Duration(cfg.FPS)
			if rng.Chance(25) {
				d = steps[rng.Intn(len(steps))]
			}
			now = now.Add(d)
			if rng.Chance(12) {
				// jump exactly onto / next to a boundary
				b := []int{startMin, stopMin}[rng.Intn(2)]
				now = time.Date(now.Year(), now.Month(), now.Day(), 0, 0, 0, 0, time.UTC).Add(time.Duration(b)*time.Minute + time.Duration(rng.Range(-1, 1)))
			}
			k := byte(evFrame)
			if rng.Chance(70) {
				k = evMotion
			}
			evs[i] = fsmEvent{Kind: k, At: now, WinClosed: !windowOpenRef(startMin, stopMin, now)}
		}
		c.Case(idx, func() interface{} {
			out := []string{}
			for i, e := range evs {
				if i > 80 {
					break
				}
				out = append(out, fmt.Sprintf("%c@%s open=%v", e.Kind, e.At.Format("15:04:05.000000000"), !e.WinClosed))
			}
			return map[string]interface{}{"config": cfg.String(), "window": hhmm(startMin) + "-" + hhmm(stopMin), "events": out}
		}, func() {
			r := newFsmRunWindow(cfg, hhmm(startMin), hhmm(stopMin))
			for _, e := range evs {
				if s := r.step(e); s.Panic != "" {
					c.Violation("panic", "", s.Panic)
					return
				}
			}
			v := newFsmView(r)
			for _, x := range oracleC04(v) {
				c.Violation(x.kind, "window "+hhmm(startMin)+"-"+hhmm(stopMin), x.detail)
			}
			closedMotion, boundary := 0, 0
			for _, s := range r.steps {
				if s.Motion && s.Ev.WinClosed {
					closedMotion++
				}
				tod := s.Ev.At.Sub(time.Date(s.Ev.At.Year(), s.Ev.At.Month(), s.Ev.At.Day(), 0, 0, 0, 0, time.UTC))
				for _, b := range []int{startMin, stopMin} {
					if d := tod - time.Duration(b)*time.Minute; d >= -1 && d <= 1 {
						boundary++
					}
				}
			}
			c.Count("window_runs", 1)
			c.Count("motion_frames_outside_window", int64(closedMotion))
			c.Count("frames_at_exact_boundary", int64(boundary))
			c.Count("recordings", int64(len(v.recs)))
			if startMin > stopMin {
				c.Count("windows_spanning_midnight", 1)
			}
			if closedMotion > 0 && len(v.recs) > 0 {
				c.Nontrivial(vNewHash().U64(uint64(idx)).U64(traceHash(r.steps)).Sum())
			}
		})
	}
}

// ---------------------------------------------------------------- C20 consequence

type refusingSink struct{ checks int }

func (s *refusingSink) StopRecording() error { return nil }
func (s *refusingSink) StartRecording(*cptvframe.Frame, uint16) error {
	return nil
}
func (s *refusingSink) WriteFrame(*cptvframe.Frame) error { return nil }
func (s *refusingSink) CheckCanRecord() error {
	s.checks++
	return fmt.Errorf("scripted: not enough disk space")
}

// flakyWriteSink accepts recordings; its writes fail with alternating error texts.
type flakyWriteSink struct {
	writes, failsA, failsB int
	period                 int
}

func (s *flakyWriteSink) StopRecording() error                          { return nil }
func (s *flakyWriteSink) StartRecording(*cptvframe.Frame, uint16) error { return nil }
func (s *flakyWriteSink) CheckCanRecord() error                         { return nil }
func (s *flakyWriteSink) WriteFrame(*cptvframe.Frame) error {
	s.writes++
	if s.period > 0 && s.writes%s.period == 0 {
		return nil // an occasional write that succeeds
	}
	if (s.failsA+s.failsB)%2 == 0 {
		s.failsA++
		return fmt.Errorf("verif-disk-A: no space left on device")
	}
	s.failsB++
	return fmt.Errorf("verif-disk-B: input/output error")
}

func TestVerif_C20Processor(t *testing.T) {
	c := vStart(t, "C20", "TestVerif_C20Processor")
	defer c.Finish()
	defer log.SetOutput(new(bytes.Buffer))
	reps := c.N(4, 24)
	for idx := int64(0); idx < reps; idx++ {
		if !c.Mine(idx) {
			continue
		}
		nframes := 2000 + int(idx)*500
		c.Case(idx, func() interface{} {
			return map[string]interface{}{"frames_with_motion_and_refusing_disk_check": nframes}
		}, func() {
			var buf bytes.Buffer
			log.SetOutput(&buf)
			log.SetFlags(0)
			sink := &refusingSink{}
			mc := fsmMotionConfig(1)
			rc := &recorder.RecorderConfig{MinSecs: 1, MaxSecs: 2, PreviewSecs: 1, Window: window.Window{NoWindow: true}}
			cam := vCam{4, 3, 9}
			t0 := time.Now()
			mp := NewMotionProcessor(nil, mc, rc, &config.Location{}, nil, sink, cam, nil, new(recorder.NoWriteRecorder))
			f := cptvframe.NewFrame(cam)
			level := uint16(3000)
			for i := 0; i < nframes; i++ {
				level = 8000 - level
				for y := range f.Pix {
					for x := range f.Pix[y] {
						f.Pix[y][x] = 1000
					}
				}
				f.Pix[1][1] = level
				f.Status = cptvframe.Telemetry{TimeOn: time.Minute + time.Duration(i)*time.Second, FrameCount: i}
				mp.ProcessFrame(f)
				if i%97 == 96 {
					// camera resets ('clear') do not make the recurring condition new
					mp.Reset(cam)
				}
			}
			elapsed := time.Since(t0)
			lines := strings.Count(buf.String(), "Recording not started")
			// outer stopwatch: over-estimates the number of one-minute intervals (sound direction)
			maxLines := int(elapsed/minLogInterval) + 2
			if sink.checks < nframes/2 {
				c.Inconclusive(fmt.Sprintf("only %d refused starts in %d frames", sink.checks, nframes))
				return
			}
			if lines < 1 {
				c.Violation("recurring-condition-never-logged", "", fmt.Sprintf("%d refused starts produced no 'Recording not started' line", sink.checks))
				return
			}
			if lines > maxLines {
				c.Violation("recurring-condition-logged-per-frame", "", fmt.Sprintf("%d refused starts within %v produced %d log lines (at most %d allowed)", sink.checks, elapsed, lines, maxLines))
				return
			}
			// distinct messages are never lost: storage whose writes fail with two alternating error
			// texts inside recordings - every failure differs from the line printed before it
			buf.Reset()
			fs := &flakyWriteSink{period: int(idx%3) * 7}
			mp2 := NewMotionProcessor(nil, mc, rc, &config.Location{}, nil, fs, cam, nil, new(recorder.NoWriteRecorder))
			for i := 0; i < 200; i++ {
				level = 8000 - level
				f.Pix[1][1] = level
				f.Status = cptvframe.Telemetry{TimeOn: 2*time.Hour + time.Duration(i)*time.Second, FrameCount: i}
				mp2.ProcessFrame(f)
			}
			gotA, gotB := strings.Count(buf.String(), "verif-disk-A"), strings.Count(buf.String(), "verif-disk-B")
			if fs.failsA+fs.failsB < 50 {
				c.Inconclusive(fmt.Sprintf("only %d failing writes in 200 motion frames", fs.failsA+fs.failsB))
				return
			}
			if gotA != fs.failsA || gotB != fs.failsB {
				c.Violation("distinct-message-lost", "alternating write failures inside a recording", fmt.Sprintf("%d writes failed with text A and %d with text B, strictly alternating; the log holds %d and %d such lines", fs.failsA, fs.failsB, gotA, gotB))
				return
			}
			c.Count("alternating_write_failures_logged", int64(gotA+gotB))
			// "identical to the last message actually printed": a recurring refusal (every frame) and a
			// continuous recorder whose file cannot be closed (every max-secs*fps+1 frames) - after each
			// stop-failure line the refusal is the newer, different message and is printed again
			buf.Reset()
			fr := newFsmRun(fsmConfig{FPS: 3, Preview: 1, Trigger: 1, Min: 1, Max: 2, Constant: true})
			fr.fault = func(sink int, op byte, n int) bool { return sink == sinkConst && op == opStop }
			fr.step(fsmEvent{Kind: evFrame})
			for i := 0; i < 120; i++ {
				fr.step(fsmEvent{Kind: evMotion, CheckFail: true})
			}
			stopLines, refusalSince, lonely := 0, true, 0
			for _, line := range strings.Split(buf.String(), "\n") {
				switch {
				case strings.Contains(line, "constant recorder"):
					stopLines++
					if !refusalSince {
						lonely++
					}
					refusalSince = false
				case strings.Contains(line, "Recording not started"):
					refusalSince = true
				}
			}
			stopFailures := 0
			for _, st := range fr.steps {
				for _, op := range st.Ops[sinkConst] {
					if op.Op == opStop && op.Err {
						stopFailures++
					}
				}
			}
			if stopFailures < 5 {
				c.Inconclusive(fmt.Sprintf("only %d failing stops of the continuous sink in 120 frames", stopFailures))
				return
			}
			if stopLines != stopFailures {
				// each stop failure follows a refusal line and is followed by one: never a repeat of the last printed line
				c.Violation("distinct-message-lost", "stop failures interleaved with a recurring refusal", fmt.Sprintf("the continuous sink's stop failed %d times, each time after a different line had been printed; the log holds %d such lines", stopFailures, stopLines))
				return
			}
			if lonely > 0 {
				c.Violation("message-suppressed-although-another-line-was-printed-since", "", fmt.Sprintf("%d of %d 'error with stoping constant recorder' lines follow the previous one with no 'Recording not started' line in between, although the refusal recurred on every frame: the refusal was suppressed as a repeat while the last printed line was a different one", lonely, stopLines))
				return
			}
			c.Count("refusals_reprinted_after_another_line", int64(stopLines))
			// two different failures on one frame: the last write of every recording fails and so
			// does the stop that follows it on the same frame. Each of the two lines differs from
			// the line printed before it, so each is printed, for every recording.
			script := []fsmEvent{{Kind: evFrame}}
			for rec := 0; rec < 8; rec++ {
				for i := 0; i < 4; i++ {
					script = append(script, fsmEvent{Kind: evMotion})
				}
				for i := 0; i < 9; i++ {
					script = append(script, fsmEvent{Kind: evFrame})
				}
			}
			dry := newFsmRun(fsmConfig{FPS: 3, Preview: 1, Trigger: 1, Min: 1, Max: 2})
			for _, ev := range script {
				dry.step(ev)
			}
			lastWrite := map[int]bool{}
			nw, recs := 0, 0
			for _, st := range dry.steps {
				for _, op := range st.Ops[sinkMotion] {
					switch op.Op {
					case opWrite:
						nw++
					case opStop:
						lastWrite[nw-1] = true
						recs++
					}
				}
			}
			if recs < 5 {
				c.Inconclusive(fmt.Sprintf("only %d recordings in the scripted stream", recs))
				return
			}
			buf.Reset()
			wet := newFsmRun(fsmConfig{FPS: 3, Preview: 1, Trigger: 1, Min: 1, Max: 2})
			wet.fault = func(sink int, op byte, n int) bool {
				return sink == sinkMotion && (op == opStop || (op == opWrite && lastWrite[n]))
			}
			for _, ev := range script {
				wet.step(ev)
			}
			wl, sl := strings.Count(buf.String(), "Failed to write to CPTV file"), strings.Count(buf.String(), "Failed to stop recording CPTV file")
			if wl != recs || sl != recs {
				c.Violation("distinct-message-lost", "write failure and stop failure on the same frame", fmt.Sprintf("%d recordings, in each the last write failed and then the stop failed; the log holds %d write-failure and %d stop-failure lines", recs, wl, sl))
				return
			}
			c.Count("write_and_stop_failures_on_one_frame_logged", int64(wl))
			c.Count("refused_starts", int64(sink.checks))
			c.Count("log_lines", int64(lines))
			c.Nontrivial(vNewHash().U64(uint64(idx)).Int(nframes).Sum())
		})
	}
}
