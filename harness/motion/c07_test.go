//go:build verif
// +build verif

package motion

// C07 - motion is reported exactly per the configured thresholds (fixed
// threshold, FFC-free streams). Reference-model monitor in lock-step.

import (
	"fmt"
	"testing"
	"time"

	config "github.com/TheCacophonyProject/go-config"
	"github.com/TheCacophonyProject/go-cptv/cptvframe"
	"github.com/TheCacophonyProject/thermal-recorder/recorder"
	"github.com/TheCacophonyProject/window"
)

// flakyStopRecorder accepts everything but reports an error from every second StopRecording.
type flakyStopRecorder struct {
	recorder.NoWriteRecorder
	stops int
}

func (r *flakyStopRecorder) StopRecording() error {
	r.stops++
	if r.stops%2 == 1 {
		return errScriptedBad
	}
	return nil
}

type motionFlag struct{ hit bool }

func (m *motionFlag) MotionDetected()   { m.hit = true }
func (m *motionFlag) RecordingStarted() {}
func (m *motionFlag) RecordingEnded()   {}

// detDriver feeds frames either to a bare motionDetector (in-package) or
// through the public MotionProcessor API and reports the verdict per frame.
type detDriver struct {
	cfg   detConfig
	det   *motionDetector
	mp    *MotionProcessor
	flag  *motionFlag
	frame *cptvframe.Frame
	n     int
}

func newDetDriver(cfg detConfig, viaProcessor bool) *detDriver {
	d := &detDriver{cfg: cfg, frame: cptvframe.NewFrame(cfg.cam())}
	mc := cfg.motionConfig()
	if !viaProcessor {
		d.det = NewMotionDetector(mc, cfg.PreviewFrames, cfg.cam())
		return d
	}
	d.flag = &motionFlag{}
	rc := &recorder.RecorderConfig{MinSecs: 1, MaxSecs: 2, PreviewSecs: 1, Window: window.Window{NoWindow: true}}
	// the storage behind the processor may fail to close a recording (at its end, at a bad
	// frame, at a camera reset); detection must not care
	d.mp = NewMotionProcessor(nil, &mc, rc, &config.Location{}, d.flag, &flakyStopRecorder{}, cfg.cam(), nil, new(recorder.NoWriteRecorder))
	return d
}

func (d *detDriver) detector() *motionDetector {
	if d.det != nil {
		return d.det
	}
	return d.mp.motionDetector
}

func (d *detDriver) feed(f *detFrame) bool {
	if f.Reset {
		if d.det != nil {
			d.det.Reset(d.cfg.cam())
		} else {
			d.mp.Reset(d.cfg.cam())
		}
		return false
	}
	f.toFrame(d.frame, d.n)
	d.n++
	if d.det != nil {
		return d.det.Detect(d.frame)
	}
	d.flag.hit = false
	d.mp.ProcessFrame(d.frame)
	return d.flag.hit
}

func detStreamDesc(cfg detConfig, frames []detFrame, upto int) func() interface{} {
	return func() interface{} {
		out := []interface{}{}
		lo := 0
		if upto > 8 {
			lo = upto - 8
		}
		for i := lo; i <= upto && i < len(frames); i++ {
			f := frames[i]
			if f.Reset {
				out = append(out, map[string]interface{}{"i": i, "reset": true})
				continue
			}
			out = append(out, map[string]interface{}{"i": i, "time_on_ms": f.TimeOn.Milliseconds(), "last_ffc_ms": f.LastFFC.Milliseconds(), "pix": f.Pix})
		}
		return map[string]interface{}{"config": cfg.String(), "frames_total": len(frames), "window_shown": out}
	}
}

func TestVerif_C07(t *testing.T) {
	c := vStart(t, "C07", "TestVerif_C07")
	defer c.Finish()
	n := c.N(60000, 6000000)
	for idx := int64(0); idx < n; idx++ {
		if !c.Mine(idx) {
			continue
		}
		rng := c.RNG(idx)
		cfg := detRandomConfig(rng, false)
		if idx%50 == 0 {
			cfg.W, cfg.H, cfg.Edge = 160, 120, rng.PickInt(0, 1, 3)
			cfg.Count = rng.PickInt(1, 3, 10)
		}
		nf := rng.Range(1, 3*cfg.Gap+5)
		if cfg.Gap == 45 && cfg.W < 100 {
			nf = rng.Range(40, 3*cfg.Gap+5)
		}
		if cfg.W >= 100 {
			nf = rng.Range(2, 12)
			if cfg.Gap > 5 {
				cfg.Gap = rng.Range(1, 5)
			}
		}
		frames := detStream(rng, cfg, nf, rng.PickInt(0, 0, 3, 10))
		if idx%7 == 3 && cfg.W < 100 {
			// blinking warm blob over a scene wholly at or below the threshold
			frames = blobStream(rng, cfg, rng.Range(6, 40), rng.PickInt(0, 0, 5))
		}
		if idx%400 == 200 {
			// Boson-sized frames, whole-scene steps: sums over the interior pass 2^31 and 2^32
			cfg.W, cfg.H, cfg.Edge = 320, 256, rng.PickInt(0, 1, 2)
			if idx%1600 == 600 {
				cfg.W, cfg.H = 640, 512
			}
			cfg.Count = rng.PickInt(1, 3, 1000, cfg.interiorN())
			cfg.Delta = uint16(rng.PickInt(30, 200, 20000))
			cfg.Temp = uint16(rng.PickInt(0, 3000, 28000))
			cfg.TMin, cfg.TMax = 0, 0
			if cfg.Gap > 5 {
				cfg.Gap = rng.Range(1, 5)
			}
			frames = sceneStepStream(rng, cfg, rng.Range(3, 9))
		}
		via := idx%2 == 1
		if idx%8 == 5 {
			// the telemetry's up-time jumps about (forward, backward, repeated) while staying far
			// from the last FFC: it has no say in detection
			for i := range frames {
				if !frames[i].Reset {
					frames[i].TimeOn = time.Minute + time.Duration(vMix(uint64(idx)*100003+uint64(i))%600000)*time.Millisecond
					frames[i].LastFFC = 0
				}
			}
		}
		bad := -1
		c.Case(idx, func() interface{} { return detStreamDesc(cfg, frames, bad)() }, func() {
			drv := newDetDriver(cfg, via)
			ref := &refDetector{cfg: cfg}
			h := vNewHash().Str(cfg.String())
			motionFrames := 0
			for i := range frames {
				f := &frames[i]
				got := drv.feed(f)
				if f.Reset {
					ref.Reset()
					c.Count("resets", 1)
					continue
				}
				want, count := ref.Detect(f.Pix)
				c.Count("frames", 1)
				if got {
					motionFrames++
				}
				if count == cfg.Count || count == cfg.Count-1 {
					c.Count("frames_at_count_boundary", 1)
				}
				h.Bool(got)
				pixHash(h, f.Pix)
				if got != want {
					bad = i
					api := "Detect()"
					if via {
						api = "MotionDetected callback"
					}
					kind := "missed-motion"
					if got {
						kind = "false-motion"
					}
					c.Violation(kind, fmt.Sprintf("warmer=%v onediff=%v", cfg.Warmer, cfg.OneDiff),
						fmt.Sprintf("frame %d (%d since reset): %s reported %v, reference %v (changed pixels %d, count-thresh %d, delta %d, temp %d, gap %d, edge %d)",
							i, len(ref.hist)-1, api, got, want, count, cfg.Count, cfg.Delta, cfg.Temp, cfg.Gap, cfg.Edge))
					return
				}
			}
			c.Count("motion_frames", int64(motionFrames))
			if idx%7 == 3 && cfg.W < 100 {
				c.Count("blinking_blob_streams", 1)
			}
			if cfg.W >= 320 {
				c.Count("boson_sized_streams", 1)
			}
			if idx%8 == 5 {
				c.Count("streams_with_erratic_up_time", 1)
			}
			if via {
				c.Count("streams_via_processor_api", 1)
			} else {
				c.Count("streams_via_detect", 1)
			}
			c.Seen("mode_matrix", fmt.Sprintf("warmer=%v onediff=%v gap=%d edge=%d", cfg.Warmer, cfg.OneDiff, cfg.Gap, cfg.Edge))
			if motionFrames > 0 {
				c.Nontrivial(h.Sum())
				c.Sample("stream", func() interface{} {
					return map[string]interface{}{"config": cfg.String(), "frames": len(frames), "motion_frames": motionFrames}
				})
			}
		})
	}
}
