//go:build verif
// +build verif

package main

// C11, dynamic threshold: the threshold stored with a recording is the one in force at its
// trigger. The dynamic threshold takes over from the configured start value once more than
// preview-secs*fps background frames have been seen (and the background moves); trigger-frames
// has no say in that. Crafted connections: a slowly cooling flat scene (the background follows
// it every frame, its mean stays >= 3000 while the start value is 2900), a hot block appearing
// so that the trigger falls on frames preview-secs*fps .. preview-secs*fps+trigger-frames+1.

import (
	"fmt"
	"io"
	"sync/atomic"
	"testing"

	yamlv2 "gopkg.in/yaml.v2"
)

func TestVerif_C11Warmup(t *testing.T) {
	prop := vEnv("VERIF_PROP", "C11")
	if prop != "C14" && prop != "C02" {
		prop = "C11"
	}
	c := vStart(t, prop, "TestVerif_C11Warmup")
	defer c.Finish()
	scratch := vEnv("VERIF_SCRATCH", t.TempDir())
	idx := int64(0)
	for _, fps := range []int{3, 9} {
		for preview := 0; preview <= 2; preview++ {
			for trig := 1; trig <= 3; trig++ {
				for j := 0; j <= trig+1; j++ {
					myIdx := idx
					idx++
					if !c.Mine(myIdx) || (!c.Thorough() && myIdx%3 != 0) {
						continue
					}
					pf := preview * fps
					k := pf - trig + 1 + j // first frame with the hot block; trigger expected at k+trig-1 >= pf
					if k < 1 {
						k = 1
					}
					cam := leptonCamera("lepton3", 16, 12, fps)
					cfg := basicConfig()
					cfg.MinSecs, cfg.MaxSecs, cfg.PreviewSecs = 1, 2, preview
					cfg.Motion = pMotion{Set: map[string]bool{"trigger-frames": true, "count-thresh": true, "frame-compare-gap": true}, TriggerFrames: trig, CountThresh: 1, FrameCompareGap: 1 + int(myIdx%2)}
					// every second connection: both limits set and the scene warmer than the upper one
					bounded := myIdx%2 == 1
					if bounded {
						cfg.Motion.Set["temp-thresh-min"], cfg.Motion.TempThreshMin = true, 2000
						cfg.Motion.Set["temp-thresh-max"], cfg.Motion.TempThreshMax = true, 2500
					}
					n := k + 3*fps + 8
					frames := []*pFrame{}
					for i := 0; i < n; i++ {
						f := &pFrame{Seq: i, TimeOnMS: timeOnFor(i), FPATempCK: 30000, FPAFFCCK: 30000, Pix: newPix(cam.ResX, cam.ResY, uint16(3300-i))}
						if i >= k {
							bx := 2 + (i*3)%9
							for y := 4; y < 7; y++ {
								for x := bx; x < bx+3; x++ {
									f.Pix[y][x] = 20000
								}
							}
						}
						frames = append(frames, f)
					}
					c.Case(myIdx, func() interface{} {
						return map[string]interface{}{"fps": fps, "preview_secs": preview, "trigger_frames": trig, "hot_block_from_frame": k, "frames": n, "limits_2000_2500": bounded,
							"scene": "flat, cooling by one count per frame from 3300; temp-thresh start value 2900 (camera-model default), dynamic threshold"}
					}, func() {
						r, err := prepareConn(scratch, cfg, cam)
						if err != nil {
							c.Inconclusive("prepareConn: " + err.Error())
							return
						}
						defer r.cleanup()
						r.serve(pacedFeed(cam, frames, 0), nil)
						if r.Err != io.EOF {
							c.Violation("connection-ended-abnormally", "", fmt.Sprintf("handleConn returned %v", r.Err))
							return
						}
						files := decodeDir(r.OutDir)
						if len(files) == 0 || files[0].Err != "" {
							c.Inconclusive(fmt.Sprintf("no decodable motion recording (hot block from frame %d)", k))
							return
						}
						d := files[0]
						var m map[string]interface{}
						if err := yamlv2.Unmarshal([]byte(d.Motion), &m); err != nil {
							c.Violation("header-motion-config", "", "motion config is not YAML: "+err.Error())
							return
						}
						thr, _ := m["triggeredthresh"].(int)
						sq := d.seqs()
						last := -1
						if len(sq) > 0 {
							last = sq[len(sq)-1]
						}
						if last < k+trig-1 {
							c.Inconclusive(fmt.Sprintf("first recording ends at frame %d, before the expected trigger %d", last, k+trig-1))
							return
						}
						// every frame from k on is warm enough to count; the earliest possible trigger is k+trig-1 >= preview*fps
						lo := 3300 - n - 1
						if bounded {
							if thr != 2500 {
								c.Violation("header-triggered-thresh", "dynamic threshold limited to [temp-thresh-min, temp-thresh-max]", fmt.Sprintf("recording %s: triggeredthresh %d with temp-thresh-min 2000 and temp-thresh-max 2500 and a background mean of at least %d at the trigger: the limit 2500 is the threshold in force", d.Name, thr, lo))
								return
							}
							c.Count("warmup_connections_with_limits", 1)
						} else if thr < lo {
							c.Violation("header-triggered-thresh", "dynamic threshold in force after preview-secs", fmt.Sprintf("recording %s (frames %s): triggeredthresh %d, but more than preview-secs*fps = %d background frames had been seen at the trigger (hot block from frame %d, trigger-frames %d) and the background mean never was below %d; the configured start value is 2900", d.Name, seqsString(sq), thr, pf, k, trig, lo))
							return
						}
						c.Count("warmup_connections", 1)
						c.Seen("warmup_thresholds", fmt.Sprint(thr))
						c.Nontrivial(vNewHash().U64(uint64(myIdx)).Int(thr).Sum())
					})
				}
			}
		}
	}

	// 'clear' during the warm-up (fewer than preview-secs*fps frames since the connect): the camera
	// restarted, the scene after it is a different one; detection restarts from scratch, so the
	// background and threshold stored with a later recording are those of the new scene
	for _, fps := range []int{3, 9} {
		for preview := 1; preview <= 2; preview++ {
			for before := 1; before <= preview*fps; before += 1 + fps/2 {
				myIdx := idx
				idx++
				if !c.Mine(myIdx) {
					continue
				}
				cam := leptonCamera("lepton3", 16, 12, fps)
				cfg := basicConfig()
				cfg.MinSecs, cfg.MaxSecs, cfg.PreviewSecs = 1, 2, preview
				cfg.Motion = pMotion{Set: map[string]bool{"trigger-frames": true, "count-thresh": true, "frame-compare-gap": true}, TriggerFrames: 1, CountThresh: 1, FrameCompareGap: 1}
				frames := []*pFrame{}
				seq := 0
				for i := 0; i < before; i++ {
					frames = append(frames, &pFrame{Seq: seq, TimeOnMS: timeOnFor(seq), FPATempCK: 30000, FPAFFCCK: 30000, Pix: newPix(cam.ResX, cam.ResY, uint16(3000-i))})
					seq++
				}
				frames = append(frames, &pFrame{Clear: true, Seq: -1})
				after := preview*fps + 2*fps + 6
				for i := 0; i < after; i++ {
					f := &pFrame{Seq: seq, TimeOnMS: timeOnFor(seq), FPATempCK: 30000, FPAFFCCK: 30000, Pix: newPix(cam.ResX, cam.ResY, uint16(3600-i))}
					if i >= preview*fps+2 && i < preview*fps+5 {
						bx := 2 + (i*3)%9
						for y := 4; y < 7; y++ {
							for x := bx; x < bx+3; x++ {
								f.Pix[y][x] = 24000
							}
						}
					}
					frames = append(frames, f)
					seq++
				}
				lo := 3600 - after - 1
				c.Case(myIdx, func() interface{} {
					return map[string]interface{}{"fps": fps, "preview_secs": preview, "frames_before_the_clear": before, "frames_after_it": after,
						"scene": "flat near 3000 before the 'clear', flat near 3600 (cooling by one count per frame) after it; dynamic threshold, start value 2900"}
				}, func() {
					r, err := prepareConn(scratch, cfg, cam)
					if err != nil {
						c.Inconclusive("prepareConn: " + err.Error())
						return
					}
					defer r.cleanup()
					r.serve(pacedFeed(cam, frames, 0), nil)
					if r.Err != io.EOF {
						c.Violation("connection-ended-abnormally", "", fmt.Sprintf("handleConn returned %v", r.Err))
						return
					}
					files := decodeDir(r.OutDir)
					if len(files) == 0 || files[0].Err != "" || len(files[0].Frames) == 0 || !files[0].Frames[0].Background {
						c.Inconclusive("no decodable motion recording after the clear")
						return
					}
					d := files[0]
					var m map[string]interface{}
					if err := yamlv2.Unmarshal([]byte(d.Motion), &m); err != nil {
						c.Violation("header-motion-config", "", "motion config is not YAML: "+err.Error())
						return
					}
					thr, _ := m["triggeredthresh"].(int)
					minBg := 65535
					for _, row := range d.Frames[0].Pix {
						for _, v := range row {
							if int(v) < minBg {
								minBg = int(v)
							}
						}
					}
					if thr < lo || minBg < lo {
						c.Violation("detection-not-restarted-by-clear", "clear during the threshold warm-up", fmt.Sprintf("a 'clear' arrived after %d frames (scene near 3000), the scene after it never was below %d; the recording made there stores threshold %d and a background whose coldest pixel is %d", before, lo, thr, minBg))
						return
					}
					c.Count("clears_during_warmup", 1)
					c.Nontrivial(vNewHash().U64(uint64(myIdx)).Int(thr).Int(minBg).Sum())
				})
			}
		}
	}

	// A test recording requested while the background is still unseeded (every frame so far lies
	// within 10 s of an FFC, as after power-on), then the FFC period ends, then motion: every file
	// holds one background frame - its first - and otherwise the camera's frames with their
	// telemetry, consecutive; the motion recording starts a full preview before its trigger.
	for _, fps := range []int{3, 9} {
		for preview := 0; preview <= 2; preview++ {
			for reqAt := 1; reqAt <= 7; reqAt += 3 {
				myIdx := idx
				idx++
				if !c.Mine(myIdx) {
					continue
				}
				cam := leptonCamera("lepton3", 16, 12, fps)
				cfg := basicConfig()
				cfg.MinSecs, cfg.MaxSecs, cfg.PreviewSecs = 1, 2, preview
				trig := 1 + int(myIdx%2)
				cfg.Motion = pMotion{Set: map[string]bool{"trigger-frames": true, "count-thresh": true, "frame-compare-gap": true}, TriggerFrames: trig, CountThresh: 1, FrameCompareGap: 1}
				warm := reqAt + 24 // frames inside the FFC period
				hotFrom := warm + preview*fps + 2*fps + 3
				n := hotFrom + 3*fps + 6
				frames := []*pFrame{}
				for i := 0; i < n; i++ {
					f := &pFrame{Seq: i, TimeOnMS: timeOnFor(i), FPATempCK: 30000, FPAFFCCK: 30000, Pix: newPix(cam.ResX, cam.ResY, uint16(3300-i/4))}
					f.LastFFCMS = timeOnFor(i) // an FFC "just now"
					if i >= warm {
						f.LastFFCMS = timeOnFor(0) - 15000
					}
					if i >= hotFrom && i < hotFrom+fps {
						bx := 2 + (i*3)%9
						for y := 4; y < 7; y++ {
							for x := bx; x < bx+3; x++ {
								f.Pix[y][x] = 20000
							}
						}
					}
					frames = append(frames, f)
				}
				c.Case(myIdx, func() interface{} {
					return map[string]interface{}{"fps": fps, "preview_secs": preview, "trigger_frames": trig, "test_recording_requested_before_frame": reqAt, "frames_within_10s_of_an_ffc": warm, "hot_block_from_frame": hotFrom, "frames": n}
				}, func() {
					r, err := prepareConn(scratch, cfg, cam)
					if err != nil {
						c.Inconclusive("prepareConn: " + err.Error())
						return
					}
					defer r.cleanup()
					var rx int64
					r.serve(pacedFeed(cam, frames, 0), func(name string) {
						if name == "conn.frame.received" {
							if k := int(atomic.AddInt64(&rx, 1)) - 1; k == reqAt {
								newSnapshotRecording()
							}
						}
					})
					if r.Err != io.EOF {
						c.Violation("connection-ended-abnormally", "", fmt.Sprintf("handleConn returned %v", r.Err))
						return
					}
					files := decodeDir(r.OutDir)
					nTest, nMotion := 0, 0
					for _, d := range files {
						if d.Err != "" {
							c.Violation("file-undecodable", "test recording during the FFC period", d.Name+": "+d.Err)
							return
						}
						sq := d.seqs()
						for i, fr := range d.Frames {
							if fr.Background && i > 0 {
								c.Violation("camera-frame-stored-as-background", "test recording during the FFC period", fmt.Sprintf("%s: entry %d of %d is flagged as a background frame (camera frames around it: %s); only the first entry of a file is one", d.Name, i, len(d.Frames), seqsString(sq)))
								return
							}
						}
						for i := 1; i < len(sq); i++ {
							if sq[i] != sq[i-1]+1 {
								c.Violation("gap-or-disorder", "test recording during the FFC period", fmt.Sprintf("%s holds frames %s", d.Name, seqsString(sq)))
								return
							}
						}
						switch {
						case len(sq) == 21 && sq[0] == reqAt:
							nTest++
						case len(sq) > 0 && sq[0] <= hotFrom && sq[len(sq)-1] >= hotFrom:
							nMotion++
							// C02: the recording reaches back a full preview before the trigger
							if want := hotFrom + trig - 1 - preview*fps - (trig - 1); sq[0] != want && sq[0] != want-1 && sq[0] != want+1 {
								// (the exact first frame is C02's own check on the fixed-threshold prediction; here only its neighbourhood)
								c.Violation("wrong-first-frame", "after a test recording during the FFC period", fmt.Sprintf("%s starts at frame %d; hot block from frame %d, trigger-frames %d, preview %d frames", d.Name, sq[0], hotFrom, trig, preview*fps))
								return
							}
						}
					}
					if nTest != 1 || nMotion < 1 {
						names := []string{}
						for _, d := range files {
							names = append(names, seqsString(d.seqs()))
						}
						c.Violation("files-missing", "test recording during the FFC period", fmt.Sprintf("expected the test recording (21 frames from %d) and a motion recording around frame %d; found %v", reqAt, hotFrom, names))
						return
					}
					c.Count("test_recordings_during_the_ffc_period", 1)
					c.Nontrivial(vNewHash().U64(uint64(myIdx)).Int(nMotion).Sum())
				})
			}
		}
	}
}
