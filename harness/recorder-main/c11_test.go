//go:build verif
// +build verif

package main

// C11 - finished files decode to exactly the recorded frames, metadata and
// settings, end to end from the socket bytes and config.toml to the files.
// Offline differential checker against the reference pipeline.

import (
	"fmt"
	"io"
	"math"
	"path/filepath"
	"sync/atomic"
	"testing"
	"time"

	yamlv2 "gopkg.in/yaml.v2"
)

var c11Names = []string{"verif-device", "a", "cacophony-火-ünï", "name with spaces", "x\"quoted\"", "back\\slash", "0", "true"}

func longString(rng *vRNG, n int, utf bool) string {
	b := []rune{}
	size := 0
	for size < n {
		r := rune(rng.Range(0x21, 0x7e))
		if utf && rng.Chance(20) {
			r = rune(rng.PickInt(0xe9, 0x4e2d, 0x1f600, 0x3b1))
		}
		l := len(string(r))
		if size+l > n {
			break
		}
		b = append(b, r)
		size += l
	}
	return string(b)
}

// seqOf identifies the sent frame a decoded frame came from.
func seqOf(fr *decFrame, cam pCamera) int {
	if fr.Background {
		return -1
	}
	if cam.Model == "boson" {
		return int(fr.Pix[0][0]) - 1
	}
	return fr.Seq
}

func fileSeqs(d *decFile, cam pCamera) []int {
	out := []int{}
	for i := range d.Frames {
		if !d.Frames[i].Background {
			out = append(out, seqOf(&d.Frames[i], cam))
		}
	}
	return out
}

func stampBoson(frames []*pFrame) {
	for _, f := range frames {
		if !f.Clear {
			f.Pix[0][0] = uint16(f.Seq + 1)
		}
	}
}

// checkHeaderFields compares the decoded CPTV header with config + camera.
func checkHeaderFields(d *decFile, cfg *pConfig, cam pCamera, wantThresh int, dynamic bool, triggered bool) (kind, msg string) {
	if d.DeviceName != cfg.DeviceName {
		return "header-device-name", fmt.Sprintf("device name %q, configured %q", d.DeviceName, cfg.DeviceName)
	}
	if d.DeviceID != cfg.DeviceID {
		return "header-device-id", fmt.Sprintf("device id %d, configured %d", d.DeviceID, cfg.DeviceID)
	}
	if d.Brand != cam.Brand || d.Model != cam.Model {
		return "header-camera", fmt.Sprintf("brand/model %q/%q, camera sent %q/%q", d.Brand, d.Model, cam.Brand, cam.Model)
	}
	if uint64(d.Serial) != cam.Serial {
		return "header-serial", fmt.Sprintf("serial %d, camera sent %d", d.Serial, cam.Serial)
	}
	if d.Firmware != cam.Firmware {
		return "header-firmware", fmt.Sprintf("firmware %q, camera sent %q", d.Firmware, cam.Firmware)
	}
	if d.ResX != cam.ResX || d.ResY != cam.ResY || d.FPS != cam.FPS {
		return "header-geometry", fmt.Sprintf("%dx%d@%d, camera %dx%d@%d", d.ResX, d.ResY, d.FPS, cam.ResX, cam.ResY, cam.FPS)
	}
	if d.PreviewSecs != cfg.PreviewSecs {
		return "header-preview-secs", fmt.Sprintf("preview-secs %d, configured %d", d.PreviewSecs, cfg.PreviewSecs)
	}
	if cfg.HasLocation {
		if d.Lat != cfg.Lat || d.Long != cfg.Long || d.Alt != cfg.Alt || d.Acc != cfg.Acc {
			return "header-location", fmt.Sprintf("location %v/%v/%v/%v, configured %v/%v/%v/%v", d.Lat, d.Long, d.Alt, d.Acc, cfg.Lat, cfg.Long, cfg.Alt, cfg.Acc)
		}
		if !cfg.LocTimestamp.IsZero() && d.LocTS.UnixNano()/1000 != cfg.LocTimestamp.UnixNano()/1000 {
			return "header-location-timestamp", fmt.Sprintf("location timestamp %v, configured %v", d.LocTS.UTC(), cfg.LocTimestamp.UTC())
		}
	} else if d.Lat != 0 || d.Long != 0 || d.Alt != 0 || d.Acc != 0 {
		// no [location] in config.toml: the file names none (not some place the code knows about)
		return "header-location", fmt.Sprintf("location %v/%v/%v/%v, but config.toml has no [location] section", d.Lat, d.Long, d.Alt, d.Acc)
	}
	// motion configuration in force
	var m map[string]interface{}
	if err := yamlv2.Unmarshal([]byte(d.Motion), &m); err != nil {
		return "header-motion-config", fmt.Sprintf("motion config is not YAML: %v (%q)", err, d.Motion)
	}
	e := cfg.effectiveMotion(cam.Model)
	want := map[string]interface{}{"dynamicthreshold": e.DynamicThreshold, "tempthresh": e.TempThresh, "tempthreshmin": e.TempThreshMin, "tempthreshmax": e.TempThreshMax,
		"deltathresh": e.DeltaThresh, "countthresh": e.CountThresh, "framecomparegap": e.FrameCompareGap, "useonediffonly": e.UseOneDiffOnly, "triggerframes": e.TriggerFrames,
		"warmeronly": e.WarmerOnly, "edgepixels": e.EdgePixels, "verbose": false}
	for k, w := range want {
		if fmt.Sprint(m[k]) != fmt.Sprint(w) {
			return "header-motion-config", fmt.Sprintf("motion config key %s = %v, settings in force %v (YAML %q)", k, m[k], w, d.Motion)
		}
	}
	tt, ok := m["triggeredthresh"]
	if !ok {
		return "header-triggered-thresh", "triggeredthresh missing from the motion config"
	}
	if !triggered {
		// continuous and test recordings have no trigger; the recorder is handed 0
		return "", ""
	}
	if !dynamic && fmt.Sprint(tt) != fmt.Sprint(wantThresh) {
		return "header-triggered-thresh", fmt.Sprintf("triggeredthresh %v, threshold in force at the trigger %d", tt, wantThresh)
	}
	if dynamic {
		v, _ := tt.(int)
		lo, hi := 0, 65535
		if e.TempThreshMin != 0 {
			lo = e.TempThreshMin
		}
		if e.TempThreshMax != 0 {
			hi = e.TempThreshMax
		}
		if v != e.TempThresh && (v < lo || v > hi) {
			return "header-triggered-thresh", fmt.Sprintf("triggeredthresh %v outside [%d,%d] and not the configured start value %d", tt, lo, hi, e.TempThresh)
		}
	}
	return "", ""
}

func c11RandomConfig(rng *vRNG, cam pCamera) (*pConfig, int) {
	cfg := basicConfig()
	cfg.DeviceName = c11Names[rng.Intn(len(c11Names))]
	if rng.Chance(15) {
		cfg.DeviceName = longString(rng, rng.PickInt(200, 255), true)
	}
	cfg.DeviceID = rng.PickInt(1, 42, 65536, math.MaxInt32)
	cfg.MaxSecs = rng.Range(1, 4)
	cfg.MinSecs = rng.Range(0, cfg.MaxSecs)
	cfg.PreviewSecs = rng.Range(0, 3)
	cfg.Constant = rng.Chance(50)
	cfg.Throttle = false
	// with activate=false the throttle settings must be irrelevant
	cfg.BucketSize, cfg.MinRefill = rng.PickStr("1s", "10m"), rng.PickStr("1h", "10m")
	if rng.Chance(70) {
		cfg.HasLocation = true
		cfg.Lat, cfg.Long = float32(rng.Range(-89, 89))+0.5321, float32(rng.Range(-179, 179))+0.6362
		cfg.Alt, cfg.Acc = float32(rng.Range(0, 3000))+0.25, float32(rng.Range(1, 100))+0.5
		cfg.LocTimestamp = time.Date(2019+rng.Intn(5), time.Month(1+rng.Intn(12)), 1+rng.Intn(28), rng.Intn(24), rng.Intn(60), rng.Intn(60), rng.Intn(1000000)*1000, time.UTC)
	}
	mode := rng.Intn(10)
	switch {
	case mode < 5: // A: every key set, simple fixed threshold
		cfg.Motion = simpleMotion(rng.Range(0, 3), rng.Range(0, 2))
		if cfg.PreviewSecs*cam.FPS+cfg.Motion.TriggerFrames < 1 {
			cfg.Motion.TriggerFrames = 1
		}
		if rng.Chance(30) {
			cfg.Motion.FrameCompareGap = rng.Range(2, 4)
			cfg.Motion.UseOneDiffOnly = rng.Bool()
			cfg.Motion.WarmerOnly = rng.Bool()
		}
		return cfg, 0
	case mode < 8: // B: partially specified section: camera-model defaults fill the rest
		cfg.Motion = pMotion{Set: map[string]bool{"dynamic-threshold": true}, DynamicThreshold: false}
		if rng.Bool() {
			cfg.Motion.Set["frame-compare-gap"], cfg.Motion.FrameCompareGap = true, rng.Range(1, 3)
		}
		if rng.Bool() {
			cfg.Motion.Set["count-thresh"], cfg.Motion.CountThresh = true, 1
		}
		if rng.Bool() {
			cfg.Motion.Set["trigger-frames"], cfg.Motion.TriggerFrames = true, rng.Range(1, 3)
		}
		return cfg, 1
	default: // C: dynamic threshold (structural checks only)
		cfg.Motion = pMotion{Set: map[string]bool{"count-thresh": true, "frame-compare-gap": true}, CountThresh: 1, FrameCompareGap: 1}
		if rng.Bool() {
			// a border wider than the camera-model default of 1
			cfg.Motion.Set["edge-pixels"], cfg.Motion.EdgePixels = true, rng.Range(2, 4)
		}
		switch rng.Intn(3) {
		case 0:
			cfg.Motion.Set["temp-thresh-min"], cfg.Motion.TempThreshMin = true, 2000
			cfg.Motion.Set["temp-thresh-max"], cfg.Motion.TempThreshMax = true, 40000
		case 1:
			// both limits set and the scene warmer than the upper one: the threshold stored
			// with a recording has to be the limit
			cfg.Motion.Set["temp-thresh-min"], cfg.Motion.TempThreshMin = true, 2000
			cfg.Motion.Set["temp-thresh-max"], cfg.Motion.TempThreshMax = true, 2500
		}
		return cfg, 2
	}
}

func (r *vRNG) PickStr(xs ...string) string { return xs[r.Intn(len(xs))] }

func TestVerif_C11(t *testing.T) {
	c := vStart(t, "C11", "TestVerif_C11")
	defer c.Finish()
	scratch := vEnv("VERIF_SCRATCH", t.TempDir())
	testRecordings := map[int64]*decFile{}
	n := c.N(96, 3000)
	for idx := int64(0); idx < n; idx++ {
		if !c.Mine(idx) {
			continue
		}
		rng := c.RNG(idx)
		cam := randomCamera(rng, true)
		cam.Serial = pickSerial(rng, 0, 1, 12345, math.MaxInt32, math.MaxUint32)
		if rng.Chance(15) {
			cam.Firmware = longString(rng, rng.PickInt(100, 255), false)
		}
		cfg, mode := c11RandomConfig(rng, cam)
		throttled := idx%8 == 7
		if throttled {
			// throttling active: files are cut and resumed in mid-event; every resumed file is still
			// a full recording (background first, threshold at trigger) - checked structurally
			mode = 3
			cam = leptonCamera("lepton3", 16, 12, 9)
			cfg.Motion = simpleMotion(1, 1)
			cfg.MinSecs, cfg.PreviewSecs, cfg.MaxSecs = 1, 1, 250
			cfg.Constant = false
			cfg.Throttle, cfg.BucketSize, cfg.MinRefill = true, "3s", "500ms"
		}
		eff := cfg.effectiveMotion(cam.Model)
		if cam.Model == "boson" && eff.EdgePixels < 1 {
			cfg.Motion.Set["edge-pixels"], cfg.Motion.EdgePixels = true, 1
			eff = cfg.effectiveMotion(cam.Model)
		}
		content := rng.PickInt(0, 0, 0, 1, 2)
		nf := rng.Range(30, 120)
		if cam.ResX > 100 {
			nf = rng.Range(25, 40)
		}
		o := streamOpts{Frames: nf, Clears: rng.PickInt(0, 0, 1, 2), MotionPct: rng.PickInt(20, 60, 100), Content: content}
		if throttled {
			o = streamOpts{Frames: 700, MotionPct: 500, Content: 0}
			nf = 700
		}
		frames := genStream(rng, cam, eff.EdgePixels, o)
		if mode == 1 && content == 0 {
			// defaults: temp-thresh 2900/28000, delta 50/200, warmer-only, gap 45, count 3: make the
			// hot block 3 pixels wide and its jump 100 (motion for lepton3, none for lepton3.5)
			retuneForDefaults(rng, cam, eff, frames)
		}
		if cam.Model == "boson" {
			stampBoson(frames)
		}
		cw := &chunkWriter{rng: rng, mode: rng.PickInt(0, 2, 2)}
		hdr := cam.headerBytes()
		c.Case(idx, func() interface{} {
			return map[string]interface{}{"camera": fmt.Sprintf("%+v", cam), "config_toml": cfg.toml("<out>", "<sock>"), "frames": nf, "content_class": content, "motion_mode": mode}
		}, func() {
			r, err := prepareConn(scratch, cfg, cam)
			if err != nil {
				c.Violation("config-rejected", "", "in-range config.toml rejected: "+err.Error())
				return
			}
			defer r.cleanup()
			if idx%4 == 1 {
				// like the daemon, keep one *Config across camera connections: an earlier, short
				// connection from a camera model with other motion defaults must leave no trace in
				// the settings that shape this connection's files
				other := leptonCamera("lepton3.5", 16, 12, 9)
				if cam.Model == "lepton3.5" {
					other = leptonCamera("lepton3", 16, 12, 9)
				}
				pf := &pFrame{Seq: 50000, TimeOnMS: timeOnFor(50000), Pix: newPix(other.ResX, other.ResY, 3000), FPATempCK: 30000, FPAFFCCK: 30000}
				r.serve(pacedFeed(other, []*pFrame{pf}, 0), nil)
				if r.Err != io.EOF {
					c.Violation("connection-ended-abnormally", "earlier connection", fmt.Sprintf("handleConn returned %v", r.Err))
					return
				}
				c.Count("connections_after_a_reconnect", 1)
			}
			// a test recording requested somewhere in the stream (through the service path)
			reqAt := -1
			if !throttled && idx%4 == 2 && nf > 30 {
				reqAt = int(uint64(idx) * 7919 % uint64(nf-25))
			}
			var rxCount int64
			reqHook := func(name string) {
				if name == "conn.frame.received" {
					if k := int(atomic.AddInt64(&rxCount, 1)) - 1; k == reqAt {
						newSnapshotRecording()
					}
				}
			}
			if throttled {
				r.serve(pacedFeed(cam, frames, 2*time.Millisecond), nil)
			} else {
				r.serve(feedStream(cam, hdr, frames, cw), reqHook)
			}
			if r.Err != io.EOF || r.WriteErr != nil {
				c.Violation("connection-ended-abnormally", "", fmt.Sprintf("handleConn returned %v (write error %v)", r.Err, r.WriteErr))
				return
			}
			sent := indexFrames(frames)
			mfiles := decodeDir(r.OutDir)
			if reqAt >= 0 {
				// the test recording (21 consecutive frames from the requested frame on) is set aside;
				// it is judged like any other file below, but it is not a motion recording
				var rest []*decFile
				var testFile *decFile
				for _, d := range mfiles {
					sq := fileSeqs(d, cam)
					if testFile == nil && len(sq) == 21 && sq[0] == reqAt {
						testFile = d
						continue
					}
					rest = append(rest, d)
				}
				if testFile == nil {
					c.Violation("test-recording-missing", "", fmt.Sprintf("a test recording was requested before frame %d of %d; no file holding frames %d..%d was found", reqAt, nf, reqAt, reqAt+20))
					return
				}
				mfiles = append(rest, testFile)
				c.Count("connections_with_a_test_recording", 1)
				// keep it for the per-file checks, drop it for the prediction comparison
				testRecordings[idx] = testFile
			}
			cfiles := decodeDir(filepath.Join(r.OutDir, "constant-recordings"))
			dynamic := eff.DynamicThreshold
			for fi, d := range append(append([]*decFile{}, mfiles...), cfiles...) {
				if d.Err != "" {
					c.Violation("file-undecodable", "", d.Name+": "+d.Err)
					return
				}
				if !d.HasBg || len(d.Frames) == 0 || !d.Frames[0].Background {
					c.Violation("background-frame-missing", "", d.Name+": first frame is not the background frame")
					return
				}
				for i := 1; i < len(d.Frames); i++ {
					if d.Frames[i].Background {
						c.Violation("background-frame-misplaced", "", fmt.Sprintf("%s: frame %d flagged as background", d.Name, i))
						return
					}
				}
				// background in force: fixed threshold never builds one (all zero); dynamic: within the envelope of the file
				bg := d.Frames[0].Pix
				if dynamic && len(d.Frames) > 0 && d.Frames[0].Background {
					// the stored background is the one maintained under the configured edge-pixels:
					// its border repeats the nearest pixel inside the border (C15's invariant, here on
					// the decoded file); an all-zero background (nothing learnt yet) satisfies it too
					e, h, w := eff.EdgePixels, len(bg), len(bg[0])
					for y := 0; y < h && 2*e < h && 2*e < w; y++ {
						for x := 0; x < w; x++ {
							ny, nx := y, x
							if ny < e {
								ny = e
							}
							if ny > h-e-1 {
								ny = h - e - 1
							}
							if nx < e {
								nx = e
							}
							if nx > w-e-1 {
								nx = w - e - 1
							}
							if bg[y][x] != bg[ny][nx] {
								c.Violation("background-content", "dynamic threshold", fmt.Sprintf("%s: stored background border pixel (%d,%d) = %d, nearest pixel inside the %d-pixel border (%d,%d) = %d", d.Name, y, x, bg[y][x], e, ny, nx, bg[ny][nx]))
								return
							}
						}
					}
					c.Count("dynamic_backgrounds_checked", 1)
				}
				if !dynamic {
					for y := range bg {
						for x := range bg[y] {
							if bg[y][x] != 0 {
								c.Violation("background-content", "fixed threshold", fmt.Sprintf("%s: background pixel (%d,%d) = %d, detector background is all zero with a fixed threshold", d.Name, y, x, bg[y][x]))
								return
							}
						}
					}
				}
				seqs := fileSeqs(d, cam)
				for k := 1; k < len(seqs); k++ {
					if seqs[k] != seqs[k-1]+1 {
						c.Violation("file-frames-not-consecutive", "", fmt.Sprintf("%s holds %v", d.Name, seqs))
						return
					}
				}
				if cam.Model == "boson" {
					k := 0
					for i := range d.Frames {
						if d.Frames[i].Background {
							continue
						}
						s, ok := sent[seqs[k]]
						if !ok || !pixEqual(d.Frames[i].Pix, s.Pix) {
							c.Violation("frame-pixels-differ", "boson", fmt.Sprintf("%s frame %d (id %d) differs from what was sent", d.Name, i, seqs[k]))
							return
						}
						k++
					}
				} else if msg := checkFileFrames(d, sent, cam); msg != "" {
					c.Violation("frame-content-differs", "", msg)
					return
				}
				if kind, msg := checkHeaderFields(d, cfg, cam, eff.TempThresh, dynamic, fi < len(mfiles) && d != testRecordings[idx]); kind != "" {
					c.Violation(kind, "", d.Name+": "+msg)
					return
				}
				c.Count("frames_compared", int64(len(seqs)))
			}
			// which frames are recorded: the settings from config.toml shape the files
			wantC := expectContinuous(cfg, cam, frames)
			if !cfg.Constant {
				wantC = nil
			}
			if len(cfiles) != len(wantC) {
				c.Violation("continuous-files", "", fmt.Sprintf("%d continuous files, expected %d (constant-recorder=%v)", len(cfiles), len(wantC), cfg.Constant))
				return
			}
			for i, d := range cfiles {
				if !intsEqual(fileSeqs(d, cam), wantC[i]) {
					c.Violation("continuous-files", "", fmt.Sprintf("continuous file %d holds %s, expected %s", i, seqsString(fileSeqs(d, cam)), seqsString(wantC[i])))
					return
				}
			}
			if throttled {
				if len(mfiles) < 2 {
					c.Inconclusive(fmt.Sprintf("throttled connection produced only %d finished files (no cut-and-resume observed)", len(mfiles)))
				} else {
					c.Count("throttle_resumed_files_checked", int64(len(mfiles)-1))
				}
			}
			if tf := testRecordings[idx]; tf != nil {
				var rest []*decFile
				for _, d := range mfiles {
					if d != tf {
						rest = append(rest, d)
					}
				}
				mfiles = rest
				delete(testRecordings, idx)
			}
			if !dynamic && !throttled {
				exp, motion := expectRecordings(cfg, cam, frames)
				var done []expRecording
				for _, e := range exp {
					if !e.Open {
						done = append(done, e)
					}
				}
				nm := 0
				for _, b := range motion {
					if b {
						nm++
					}
				}
				c.Count("predicted_motion_frames", int64(nm))
				if len(mfiles) != len(done) {
					c.Violation("recordings-differ-from-settings", fmt.Sprintf("mode %d", mode), fmt.Sprintf("%d motion files, the settings in force predict %d: %s", len(mfiles), len(done), describeRecs(exp)))
					return
				}
				for i, d := range mfiles {
					if !intsEqual(fileSeqs(d, cam), done[i].Seqs) {
						c.Violation("recordings-differ-from-settings", fmt.Sprintf("mode %d", mode), fmt.Sprintf("motion file %d holds %s, the settings in force predict %s (trigger %d, ended by %s)", i, seqsString(fileSeqs(d, cam)), seqsString(done[i].Seqs), done[i].Trigger, done[i].EndedBy))
						return
					}
				}
			}
			c.Count("connections", 1)
			c.Count("motion_files", int64(len(mfiles)))
			c.Count("continuous_files", int64(len(cfiles)))
			c.Count(fmt.Sprintf("mode_%d_connections", mode), 1)
			c.Seen("cameras", fmt.Sprintf("%s %dx%d", cam.Model, cam.ResX, cam.ResY))
			c.Seen("content", fmt.Sprint(content))
			if len(mfiles)+len(cfiles) > 0 {
				c.Nontrivial(vNewHash().U64(uint64(idx)).Int(len(mfiles)).Int(len(cfiles)).Int(nf).Sum())
				c.Sample("connection", func() interface{} {
					return map[string]interface{}{"camera": fmt.Sprintf("%s %dx%d@%d", cam.Model, cam.ResX, cam.ResY, cam.FPS), "motion_mode": mode, "content": content, "frames": nf,
						"motion_files": len(mfiles), "continuous_files": len(cfiles), "min/max/preview": fmt.Sprintf("%d/%d/%d", cfg.MinSecs, cfg.MaxSecs, cfg.PreviewSecs)}
				})
			}
		})
	}
}

// retuneForDefaults rewrites the hot block so that the camera-model default
// thresholds decide: a 3-pixel block above both temp-thresh defaults whose
// jump of 100 exceeds lepton3's delta (50) but not lepton3.5's (200).
func retuneForDefaults(rng *vRNG, cam pCamera, eff pMotion, frames []*pFrame) {
	level := uint16(30000)
	y := eff.EdgePixels + 1
	x0 := eff.EdgePixels + 1
	for _, f := range frames {
		if f.Clear {
			continue
		}
		for yy := range f.Pix {
			for xx := range f.Pix[yy] {
				f.Pix[yy][xx] = 29000
			}
		}
		if f.MotionAimed {
			level += 100
			if level > 60000 {
				level = 30000
			}
		}
		for k := 0; k < 3; k++ {
			f.Pix[y][x0+k] = level
		}
	}
}
