//go:build verif
// +build verif

package main

// Daemon tier (optional): the real thermal-recorder binary (built by the
// driver from /repo's working tree, path in VERIF_DAEMON) on a private
// dbus-daemon, the harness playing leptond on the frame socket and owning
// org.cacophony.leptond / org.cacophony.Events on the private bus.
//   C10: start-up clean-up is actually performed by the daemon (debris planted
//        before start, and debris left by SIGKILL in mid-recording) before it
//        accepts a camera connection; complete recordings survive.
//   C13: every bad frame produces one RestartCamera call and one
//        bad-thermal-frame event.
//   C06: throttling produces 'throttle' events through Events.Queue, far fewer
//        than frames.
// Skipped (recorded as inconclusive) when no dbus-daemon binary is found.

import (
	"errors"
	"fmt"
	"io/ioutil"
	"net"
	"os"
	"os/exec"
	"path/filepath"
	"strings"
	"sync"
	"syscall"
	"testing"
	"time"

	"github.com/godbus/dbus"
)

type busLog struct {
	mu        sync.Mutex
	restarts  int
	autoFFC   []bool
	adds      []string // event types
	queues    int
	queueBody []string
	// bad-thermal-frame events offered / refused by the fake event service
	badAddCalls, failedAdds int
	queueCalls              int
	// while set, the camera daemon refuses to switch automatic FFC back on
	failAutoFFCOn    bool
	refusedAutoFFCOn int
}

type fakeLeptond struct{ l *busLog }

func (f fakeLeptond) RestartCamera() *dbus.Error {
	f.l.mu.Lock()
	f.l.restarts++
	f.l.mu.Unlock()
	return nil
}
func (f fakeLeptond) SetAutoFFC(on bool) *dbus.Error {
	f.l.mu.Lock()
	defer f.l.mu.Unlock()
	if on && f.l.failAutoFFCOn {
		f.l.refusedAutoFFCOn++
		return dbus.MakeFailedError(errors.New("verif: camera busy restarting"))
	}
	f.l.autoFFC = append(f.l.autoFFC, on)
	return nil
}
func (f fakeLeptond) RunFFC() *dbus.Error { return nil }

type fakeEvents struct{ l *busLog }

func (f fakeEvents) Add(details string, typ string, ts int64) *dbus.Error {
	f.l.mu.Lock()
	defer f.l.mu.Unlock()
	if typ == "bad-thermal-frame" {
		f.l.badAddCalls++
		if f.l.badAddCalls == 2 {
			// the event store is unavailable for the second bad frame; the camera daemon is
			// still reachable and must still be asked to restart the camera
			f.l.failedAdds++
			return dbus.MakeFailedError(errors.New("verif: event store unavailable"))
		}
	}
	f.l.adds = append(f.l.adds, typ)
	return nil
}
func (f fakeEvents) Queue(details []byte, ts int64) *dbus.Error {
	f.l.mu.Lock()
	f.l.queueCalls++
	if f.l.queueCalls == 1 {
		// the event service refuses the first throttle event; later ones must still be delivered
		f.l.mu.Unlock()
		return dbus.MakeFailedError(errors.New("verif: event queue unavailable"))
	}
	f.l.queues++
	f.l.queueBody = append(f.l.queueBody, string(details))
	f.l.mu.Unlock()
	return nil
}

func findDbusDaemon() string {
	for _, p := range []string{"/root/miniconda/bin/dbus-daemon", "/usr/bin/dbus-daemon", "/bin/dbus-daemon"} {
		if _, err := os.Stat(p); err == nil {
			return p
		}
	}
	if p, err := exec.LookPath("dbus-daemon"); err == nil {
		return p
	}
	return ""
}

type daemonRig struct {
	dir, busSock, confDir, outDir, frameSock string
	bus                                      *exec.Cmd
	daemon                                   *exec.Cmd
	daemonLog                                string
	conn                                     *dbus.Conn
	log                                      *busLog
}

func waitFor(cond func() bool, d time.Duration) bool {
	deadline := time.Now().Add(d)
	for time.Now().Before(deadline) {
		if cond() {
			return true
		}
		time.Sleep(5 * time.Millisecond)
	}
	return cond()
}

func (r *daemonRig) startBus(dbusBin string) error {
	conf := fmt.Sprintf(`<!DOCTYPE busconfig PUBLIC "-//freedesktop//DTD D-Bus Bus Configuration 1.0//EN" "http://www.freedesktop.org/standards/dbus/1.0/busconfig.dtd">
<busconfig>
  <type>system</type>
  <listen>unix:path=%s</listen>
  <auth>EXTERNAL</auth>
  <policy context="default">
    <allow send_destination="*" eavesdrop="true"/>
    <allow eavesdrop="true"/>
    <allow own="*"/>
    <allow user="*"/>
  </policy>
</busconfig>`, r.busSock)
	cf := filepath.Join(r.dir, "bus.conf")
	if err := ioutil.WriteFile(cf, []byte(conf), 0644); err != nil {
		return err
	}
	r.bus = exec.Command(dbusBin, "--config-file="+cf, "--nofork")
	r.bus.Stdout, r.bus.Stderr = nil, nil
	if err := r.bus.Start(); err != nil {
		return err
	}
	if !waitFor(func() bool { _, err := os.Stat(r.busSock); return err == nil }, 10*time.Second) {
		return fmt.Errorf("private bus socket did not appear")
	}
	// (the socket file exists a moment before the bus listens on it: on a loaded machine the
	// first dial can be refused)
	var conn *dbus.Conn
	var err error
	for try := 0; try < 200; try++ {
		if conn, err = dbus.Dial("unix:path=" + r.busSock); err == nil {
			break
		}
		time.Sleep(50 * time.Millisecond)
	}
	if err != nil {
		return err
	}
	if err := conn.Auth(nil); err != nil {
		return err
	}
	if err := conn.Hello(); err != nil {
		return err
	}
	r.conn = conn
	r.log = &busLog{}
	for _, n := range []string{"org.cacophony.leptond", "org.cacophony.Events"} {
		if rep, err := conn.RequestName(n, dbus.NameFlagDoNotQueue); err != nil || rep != dbus.RequestNameReplyPrimaryOwner {
			return fmt.Errorf("cannot own %s: %v %v", n, rep, err)
		}
	}
	conn.Export(fakeLeptond{r.log}, "/org/cacophony/leptond", "org.cacophony.leptond")
	conn.Export(fakeEvents{r.log}, "/org/cacophony/Events", "org.cacophony.Events")
	return nil
}

func (r *daemonRig) startDaemon(bin string) error {
	lf, err := os.OpenFile(r.daemonLog, os.O_CREATE|os.O_APPEND|os.O_WRONLY, 0644)
	if err != nil {
		return err
	}
	os.Remove(r.frameSock)
	r.daemon = exec.Command(bin, "-c", r.confDir)
	r.daemon.Env = append(os.Environ(), "DBUS_SYSTEM_BUS_ADDRESS="+r.busSock)
	r.daemon.Stdout, r.daemon.Stderr = lf, lf
	if err := r.daemon.Start(); err != nil {
		return err
	}
	lf.Close()
	if !waitFor(func() bool { _, err := os.Stat(r.frameSock); return err == nil }, 30*time.Second) {
		b, _ := ioutil.ReadFile(r.daemonLog)
		return fmt.Errorf("daemon did not open the frame socket; log:\n%s", tail(string(b), 1500))
	}
	return nil
}

func (r *daemonRig) killDaemon() {
	if r.daemon != nil && r.daemon.Process != nil {
		r.daemon.Process.Signal(syscall.SIGKILL)
		r.daemon.Wait()
		r.daemon = nil
	}
}

func (r *daemonRig) stop() {
	r.killDaemon()
	if r.conn != nil {
		r.conn.Close()
	}
	if r.bus != nil && r.bus.Process != nil {
		r.bus.Process.Kill()
		r.bus.Wait()
	}
}

func TestVerif_Daemon(t *testing.T) {
	prop := vEnv("VERIF_PROP", "C10")
	c := vStart(t, prop, "TestVerif_Daemon")
	defer c.Finish()
	bin := os.Getenv("VERIF_DAEMON")
	dbusBin := findDbusDaemon()
	if c.Shard != 0 && c.OnlyCase < 0 {
		return
	}
	if bin == "" || dbusBin == "" {
		c.Inconclusive(fmt.Sprintf("daemon tier skipped: daemon binary %q, dbus-daemon %q", bin, dbusBin))
		c.Note("daemon_tier", "skipped")
		return
	}
	scratch := vEnv("VERIF_SCRATCH", t.TempDir())
	c.Case(0, func() interface{} {
		return "real daemon on a private bus: planted debris, kill in mid-recording, restart, bad frames, throttling"
	}, func() {
		dir, _ := ioutil.TempDir(scratch, "daemon-")
		// unix socket paths are limited to ~100 bytes
		short, err := ioutil.TempDir("/tmp", "vd")
		if err != nil {
			c.Inconclusive(err.Error())
			return
		}
		defer os.RemoveAll(short)
		r := &daemonRig{dir: dir, busSock: filepath.Join(short, "bus"), confDir: filepath.Join(dir, "etc"), outDir: filepath.Join(dir, "out"), frameSock: filepath.Join(short, "frames"), daemonLog: filepath.Join(dir, "daemon.log")}
		defer r.stop()
		os.MkdirAll(r.confDir, 0755)
		os.MkdirAll(filepath.Join(r.outDir, "constant-recordings"), 0755)
		cam := leptonCamera("lepton3", 16, 12, 9)
		cfg := basicConfig()
		cfg.Constant = true
		cfg.MinSecs, cfg.MaxSecs, cfg.PreviewSecs = 1, 3, 1
		cfg.Throttle, cfg.BucketSize, cfg.MinRefill = true, "4s", "1h"
		cfg.Motion = simpleMotion(1, 1)
		if err := ioutil.WriteFile(filepath.Join(r.confDir, "config.toml"), []byte(cfg.toml(r.outDir, r.frameSock)), 0644); err != nil {
			c.Inconclusive(err.Error())
			return
		}
		if err := r.startBus(dbusBin); err != nil {
			c.Inconclusive("private dbus-daemon: " + err.Error())
			c.Note("daemon_tier", "skipped: "+err.Error())
			return
		}
		// ---- phase 1: debris planted before the first start + one complete recording
		pc, err := ParseConfig(r.confDir)
		if err != nil {
			c.Inconclusive("ParseConfig: " + err.Error())
			return
		}
		hdrInfo := vSpec{cam.ResX, cam.ResY, cam.FPS}
		rec := NewCPTVFileRecorder(pc, hdrInfo, cam.Brand, cam.Model, 1, "fw")
		fr := c10Frames(cam, "fff")
		if err := rec.StartRecording(framesToCptv(fr[0], cam), 0); err == nil {
			for _, f := range fr {
				rec.WriteFrame(framesToCptv(f, cam))
			}
			rec.StopRecording()
		}
		good, _ := scanCompleteCount(r.outDir)
		for _, n := range []string{"20200101.000000.000.cptv.temp", "20200101.000000.000.cptv.temp.tmp", "constant-recordings/20200101.000001.000.cptv.temp", "constant-recordings/20200101.000001.000.cptv.temp.tmp"} {
			ioutil.WriteFile(filepath.Join(r.outDir, n), []byte("partial"), 0644)
		}
		if err := r.startDaemon(bin); err != nil {
			c.Inconclusive("daemon start: " + err.Error())
			return
		}
		judge := func(phase string) bool {
			left := debris(r.outDir)
			bad, complete := scanComplete(r.outDir)
			if len(left) > 0 {
				c.ViolationP("C10", "debris-survives-daemon-startup", debrisClass(left), fmt.Sprintf("%s: when the daemon was ready for a camera connection the output directory still held %s", phase, strings.Join(left, ", ")))
				return false
			}
			if len(bad) > 0 {
				c.ViolationP("C10", "incomplete-file-after-daemon-startup", phase, strings.Join(bad, "; "))
				return false
			}
			if complete < good {
				c.ViolationP("C10", "daemon-startup-removed-complete-recording", phase, fmt.Sprintf("%d complete recordings before start-up, %d after", good, complete))
				return false
			}
			good = complete
			return true
		}
		if !judge("debris planted before start") {
			return
		}
		c.Count("daemon_startups_checked", 1)
		// ---- phase 2: camera connection with motion, bad frames, throttling; SIGKILL in mid-recording
		conn, err := net.Dial("unix", r.frameSock)
		if err != nil {
			c.Inconclusive("dial frame socket: " + err.Error())
			return
		}
		conn.Write(cam.headerBytes())
		nbad := 0
		// first, one short motion recording ended by a rejected frame while the camera daemon, busy
		// restarting the camera, refuses the request to switch automatic FFC back on: the recording
		// is finished all the same
		{
			topLevel := func() int {
				n := 0
				for _, e := range dirListing(r.outDir) {
					if strings.HasSuffix(e, ".cptv") {
						n++
					}
				}
				return n
			}
			before := topLevel()
			r.log.mu.Lock()
			r.log.failAutoFFCOn = true
			r.log.mu.Unlock()
			for i, f := range c10Frames(cam, "ffff"+strings.Repeat("m", 8)+"f"+strings.Repeat("f", 12)) {
				if i == 12 {
					f.Pix[5][5] = 0
					nbad++
				}
				if _, err := conn.Write(f.raw(cam)); err != nil {
					c.Inconclusive("frame socket write: " + err.Error())
					return
				}
				time.Sleep(2 * time.Millisecond)
			}
			finished := waitFor(func() bool { return topLevel() > before }, 5*time.Second)
			r.log.mu.Lock()
			r.log.failAutoFFCOn = false
			refused := r.log.refusedAutoFFCOn
			r.log.mu.Unlock()
			if refused == 0 {
				c.Inconclusive("the daemon never asked to switch automatic FFC back on during the short recording")
			} else if !finished {
				c.ViolationP("C13", "recording-not-ended-at-bad-frame", "daemon tier; camera daemon refusing SetAutoFFC(true)", fmt.Sprintf("8 motion frames, then a rejected frame, then 12 still frames: no finished recording appeared in the output directory within 5 s (the camera daemon refused %d requests to switch automatic FFC on); entries: %v", refused, dirListing(r.outDir)))
			} else {
				c.Count("daemon_recordings_ended_by_bad_frame_with_leptond_refusing", 1)
			}
		}
		frames := c10Frames(cam, "ffff"+strings.Repeat("m", 120)+"ffff")
		for i, f := range frames {
			if i == 50 || i == 51 || i == 90 {
				f.Pix[5][5] = 0
				nbad++
			}
			if _, err := conn.Write(f.raw(cam)); err != nil {
				c.Inconclusive("frame socket write: " + err.Error())
				return
			}
			time.Sleep(2 * time.Millisecond)
		}
		// D-Bus side effects of the connection so far
		waitFor(func() bool { r.log.mu.Lock(); defer r.log.mu.Unlock(); return r.log.restarts >= nbad }, 5*time.Second)
		r.log.mu.Lock()
		restarts, adds, queues := r.log.restarts, append([]string{}, r.log.adds...), r.log.queues
		failedAdds := r.log.failedAdds
		r.log.mu.Unlock()
		badEvents := 0
		for _, a := range adds {
			if a == "bad-thermal-frame" {
				badEvents++
			}
		}
		if restarts != nbad {
			c.ViolationP("C13", "camera-restart-requests", "daemon tier", fmt.Sprintf("%d bad frames sent, %d RestartCamera calls observed on the bus", nbad, restarts))
		}
		if badEvents+failedAdds != nbad {
			c.ViolationP("C13", "bad-frame-events", "daemon tier", fmt.Sprintf("%d bad frames sent, %d bad-thermal-frame events observed on the bus (%d more refused by the event service)", nbad, badEvents, failedAdds))
		}
		c.Count("daemon_bad_frame_events_refused", int64(failedAdds))
		c.Count("daemon_bad_frames", int64(nbad))
		c.Count("daemon_restart_calls", int64(restarts))
		// throttling: bucket 4 s = 36 frames, 120 motion frames, refill 1 h => at least one throttle event, never one per frame
		if queues < 1 || queues > 12 {
			c.ViolationP("C06", "throttle-events-on-bus", "daemon tier", fmt.Sprintf("120 motion frames against a 36-frame bucket produced %d throttle events on the bus after the first one had been refused by the event service (expected a handful: one per cut or suppressed start)", queues))
		}
		c.Count("daemon_throttle_events", int64(queues))
		// start another motion burst and kill in mid-recording
		more := c10Frames(cam, strings.Repeat("m", 10))
		for _, f := range more {
			f.Seq += 1000
			f.TimeOnMS = timeOnFor(f.Seq)
			conn.Write(f.raw(cam))
			time.Sleep(2 * time.Millisecond)
		}
		inProgress := waitFor(func() bool {
			m, _ := filepath.Glob(filepath.Join(r.outDir, "constant-recordings", "*.cptv.temp"))
			return len(m) > 0
		}, 5*time.Second)
		r.killDaemon()
		conn.Close()
		left := debris(r.outDir)
		if !inProgress || len(left) == 0 {
			c.Inconclusive("the kill did not leave a recording in progress behind")
		} else {
			c.Count("daemon_kills_leaving_debris", 1)
		}
		if bad, _ := scanComplete(r.outDir); len(bad) > 0 {
			c.ViolationP("C10", "incomplete-file-bears-cptv-name", "daemon tier; found after kill", strings.Join(bad, "; "))
			return
		}
		_, good = scanComplete(r.outDir)
		// ---- phase 3: restart; clean-up must have happened before the daemon is ready again.
		// The operator has switched the continuous recorder off in the meantime: what the previous
		// run left in constant-recordings/ is debris all the same.
		cfgOff := *cfg
		cfgOff.Constant = false
		if err := ioutil.WriteFile(filepath.Join(r.confDir, "config.toml"), []byte(cfgOff.toml(r.outDir, r.frameSock)), 0644); err != nil {
			c.Inconclusive(err.Error())
			return
		}
		if err := r.startDaemon(bin); err != nil {
			c.Inconclusive("daemon restart: " + err.Error())
			return
		}
		if !judge("after SIGKILL in mid-recording and restart with the continuous recorder switched off") {
			return
		}
		c.Count("daemon_startups_checked", 1)
		// ---- phase 4: the operator changes a recorder setting while a motion recording is being
		// written; the daemon ends itself to be restarted with the new settings. However it goes
		// about that, nothing incomplete may bear the .cptv name afterwards.
		cfgNow := cfgOff
		cfgNow.Throttle = false
		for round := 0; round < 4; round++ {
			if round > 0 {
				if err := r.startDaemon(bin); err != nil {
					c.Inconclusive("daemon restart: " + err.Error())
					return
				}
			}
			conn2, err := net.Dial("unix", r.frameSock)
			if err != nil {
				c.Inconclusive("dial frame socket: " + err.Error())
				return
			}
			// a full-size camera streaming as fast as the daemon reads: a frame is being written
			// to the recording at practically every instant
			big := leptonCamera("lepton3", 160, 120, 9)
			conn2.Write(big.headerBytes())
			raws := [][]byte{}
			for _, f := range c10Frames(big, "ffff"+strings.Repeat("m", 12)) {
				raws = append(raws, f.raw(big))
			}
			fed := make(chan int, 1)
			go func() {
				n := 0
				for ; n < 200000; n++ {
					raw := raws[n%len(raws)]
					if n >= len(raws) {
						raw = raws[4+n%12]
					}
					if _, err := conn2.Write(raw); err != nil {
						break
					}
				}
				fed <- n
			}()
			recording := waitFor(func() bool {
				m, _ := filepath.Glob(filepath.Join(r.outDir, "*.cptv.temp"))
				return len(m) > 0
			}, 5*time.Second)
			time.Sleep(time.Duration(7*round) * time.Millisecond)
			cfgNow.MaxSecs = 600 + round
			exited := make(chan struct{})
			d := r.daemon
			go func() { d.Wait(); close(exited) }()
			ioutil.WriteFile(filepath.Join(r.confDir, "config.toml"), []byte(cfgNow.toml(r.outDir, r.frameSock)), 0644)
			select {
			case <-exited:
				r.daemon = nil
				c.Count("daemon_exits_for_a_config_change", 1)
				if recording {
					c.Count("daemon_exits_for_a_config_change_in_mid_recording", 1)
				}
			case <-time.After(30 * time.Second):
				c.Note("daemon_config_change", "the daemon did not end itself within 30 s of a changed max-secs")
				r.killDaemon()
				<-exited
			}
			conn2.Close()
			<-fed
			if bad, _ := scanComplete(r.outDir); len(bad) > 0 {
				c.ViolationP("C10", "incomplete-file-bears-cptv-name", "daemon tier; found after the daemon ended itself for a configuration change", strings.Join(bad, "; "))
				return
			}
		}
		c.Nontrivial(vNewHash().Int(restarts).Int(queues).Int(good).Sum())
		c.Sample("daemon", func() interface{} {
			return map[string]interface{}{"bad_frames": nbad, "restart_calls": restarts, "bad_frame_events": badEvents, "throttle_events": queues, "debris_after_kill": left, "complete_recordings": good}
		})
	})
}

func scanCompleteCount(dir string) (int, []string) {
	bad, n := scanComplete(dir)
	return n, bad
}
