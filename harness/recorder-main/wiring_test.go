//go:build verif
// +build verif

package main

// Pipeline-tier jobs for the main.go wiring clauses of C04, C05, C12 and C17:
// the real handleConn with real CPTVFileRecorders, real clock and real disk.

import (
	"bytes"
	"fmt"
	"io"
	"io/ioutil"
	"log"
	"os"
	"path/filepath"
	"sort"
	"strconv"
	"strings"
	"sync"
	"sync/atomic"
	"syscall"
	"testing"
	"time"
)

func continuousMotionStream(cam pCamera, n int) []*pFrame {
	pat := strings.Repeat("m", n)
	fr := c10Frames(cam, pat)
	return fr
}

func pacedFeed(cam pCamera, frames []*pFrame, pace time.Duration) func(w io.Writer) error {
	return func(w io.Writer) error {
		if _, err := w.Write(cam.headerBytes()); err != nil {
			return err
		}
		for _, f := range frames {
			var b []byte
			if f.Clear {
				b = []byte("clear")
			} else {
				b = f.raw(cam)
			}
			if _, err := w.Write(b); err != nil {
				return err
			}
			if pace > 0 {
				time.Sleep(pace)
			}
		}
		return nil
	}
}

func recordedFrames(files []*decFile) (n int, bad string) {
	for _, d := range files {
		if d.Err != "" {
			return n, d.Name + ": " + d.Err
		}
		n += len(d.seqs())
	}
	return n, ""
}

// ---------------------------------------------------------------- C05 / C06 wiring

// burstStream: motion bursts separated by quiet gaps (hot pixel toggling).
func burstStream(rng *vRNG, cam pCamera, n int, continuous bool) []*pFrame {
	pat := make([]byte, 0, n)
	for len(pat) < n {
		if continuous {
			pat = append(pat, 'm')
			continue
		}
		q, m := rng.Range(cam.FPS, 4*cam.FPS), rng.Range(cam.FPS, 12*cam.FPS)
		for i := 0; i < q; i++ {
			pat = append(pat, 'f')
		}
		for i := 0; i < m; i++ {
			pat = append(pat, 'm')
		}
	}
	return c10Frames(cam, string(pat[:n]))
}

// TestVerif_C05Pipe (also a job of C06): the throttle as main.go wires it, with the real clock.
//
//	C05: frames in finished files <= bucket + 1.01*rate*T + 2, T an outer stopwatch (sound);
//	C06: the processor cannot see the throttle, so its recordings are the unthrottled prediction;
//	     every finished file must be a run of consecutive frames inside ONE predicted recording, and a
//	     file that ends before that recording's end was cut by the throttle and must hold at least
//	     (min-secs+preview-secs)*fps frames.
func TestVerif_C05Pipe(t *testing.T) {
	prop := vEnv("VERIF_PROP", "C05")
	if prop != "C06" {
		prop = "C05"
	}
	c := vStart(t, prop, "TestVerif_C05Pipe")
	defer c.Finish()
	scratch := vEnv("VERIF_SCRATCH", t.TempDir())
	n := c.N(8, 64)
	for idx := int64(0); idx < n; idx++ {
		if !c.Mine(idx) {
			continue
		}
		rng := c.RNG(idx)
		fps := rng.PickInt(3, 9)
		cam := leptonCamera("lepton3", 16, 12, fps)
		cfg := basicConfig()
		cfg.MinSecs, cfg.PreviewSecs = rng.Range(1, 2), rng.Range(1, 2)
		continuous := idx%2 == 0
		nf := 1500
		if continuous {
			// max-secs*fps exceeds the stream: no recording ends by itself, every finished file is a cut
			cfg.MaxSecs = nf/fps + 50
		} else {
			// sometimes max-secs < min-secs + preview-secs (valid: only min <= max is required)
			cfg.MaxSecs = rng.Range(cfg.MinSecs, cfg.MinSecs+cfg.PreviewSecs+2)
		}
		cfg.Motion = simpleMotion(rng.PickInt(1, fps, 2*fps), 1) // trigger-frames may exceed one second of frames
		// the first eight cases pin the corner configurations (whatever the seed)
		switch idx {
		case 0, 2:
			cfg.Motion.TriggerFrames = 2 * fps // continuous motion, trigger-frames worth two seconds
		case 1, 6:
			cfg.MinSecs, cfg.PreviewSecs = 2, 2
			cfg.MaxSecs = 3 // max-secs < min-secs + preview-secs
			cfg.Motion.TriggerFrames = 1
		case 3:
			cfg.MaxSecs = cfg.MinSecs
			cfg.Motion.TriggerFrames = fps
		case 4, 7:
			cfg.Motion.TriggerFrames = 1
		case 5:
			cfg.MaxSecs = 20
		}
		minLen := (cfg.MinSecs + cfg.PreviewSecs) * fps
		bucketS := cfg.MinSecs + cfg.PreviewSecs + rng.Range(1, 3)
		refillMS := rng.PickInt(500, 1000, 2000)
		cfg.Throttle, cfg.BucketSize, cfg.MinRefill = true, fmt.Sprintf("%ds", bucketS), fmt.Sprintf("%dms", refillMS)
		if idx%4 == 2 {
			// a partial [thermal-throttler] section: only bucket-size is given, min-refill keeps its
			// documented default of ten minutes
			cfg.MinRefill, refillMS = "", 600000
		}
		pace := 2 * time.Millisecond
		if idx%4 == 2 {
			pace = 7 * time.Millisecond // long enough for a refill period as short as the bucket to show
		}
		frames := burstStream(rng, cam, nf, continuous)
		B := bucketS * fps
		rate := float64(minLen) / (float64(refillMS) / 1000)
		c.Case(idx, func() interface{} {
			return map[string]interface{}{"config": fmt.Sprintf("min=%d preview=%d max=%d trigger-frames=%d fps=%d bucket=%ds min-refill=%dms (B=%d frames, minLen=%d, rate=%.1f/s)", cfg.MinSecs, cfg.PreviewSecs, cfg.MaxSecs, cfg.Motion.TriggerFrames, fps, bucketS, refillMS, B, minLen, rate),
				"frames": nf, "pace": pace.String(), "continuous_motion": continuous}
		}, func() {
			run := func(throttle bool) (int, []*decFile, time.Duration, string) {
				cc := *cfg
				cc.Throttle = throttle
				if !throttle && continuous {
					cc.MaxSecs = 10 // so that the unthrottled run leaves finished files to count
				}
				// the continuous recorder runs next to the throttled motion recorder in a third of the cases
				cc.Constant = idx%3 == 1
				r, err := prepareConn(scratch, &cc, cam)
				if err != nil {
					return 0, nil, 0, "prepareConn: " + err.Error()
				}
				defer r.cleanup()
				if idx%4 == 3 {
					// an earlier, short connection from a camera with another frame rate in the same
					// process: the throttle's frame-denominated numbers must be this connection's
					other := leptonCamera("lepton3", 16, 12, []int{1, 27}[int(idx/4)%2])
					pf := &pFrame{Seq: 60000, TimeOnMS: timeOnFor(60000), Pix: newPix(other.ResX, other.ResY, 3000), FPATempCK: 30000, FPAFFCCK: 30000}
					r.serve(pacedFeed(other, []*pFrame{pf}, 0), nil)
					if r.Err != io.EOF {
						return 0, nil, 0, fmt.Sprintf("earlier connection: handleConn returned %v", r.Err)
					}
				}
				r.serve(pacedFeed(cam, frames, pace), nil)
				if r.Err != io.EOF {
					return 0, nil, 0, fmt.Sprintf("handleConn returned %v", r.Err)
				}
				files := decodeDir(r.OutDir)
				cnt, bad := recordedFrames(files)
				return cnt, files, r.Duration, bad
			}
			got, files, T, bad := run(true)
			if bad != "" {
				c.Violation("pipeline-failed", "throttle on", bad)
				return
			}
			bound := float64(B) + 1.01*rate*T.Seconds() + 2
			if prop == "C05" && float64(got) > bound {
				c.Violation("bucket-bound-exceeded", "main.go wiring", fmt.Sprintf("%d frames reached storage within %v with throttling active; bucket %d + 1.01*%.1f/s*%.2fs + 2 = %.1f", got, T, B, rate, T.Seconds(), bound))
				return
			}
			// files vs the processor's (unthrottled) recordings
			exp, _ := expectRecordings(cfg, cam, frames)
			cuts := 0
			for _, d := range files {
				sq := d.seqs()
				if len(sq) == 0 {
					continue
				}
				var host *expRecording
				for k := range exp {
					e := &exp[k]
					if len(e.Seqs) > 0 && sq[0] >= e.Seqs[0] && sq[0] <= e.Seqs[len(e.Seqs)-1] {
						host = e
					}
				}
				consecutive := true
				for k := 1; k < len(sq); k++ {
					consecutive = consecutive && sq[k] == sq[k-1]+1
				}
				if host == nil || !consecutive || sq[len(sq)-1] > host.Seqs[len(host.Seqs)-1] {
					if prop == "C06" {
						c.Violation("file-not-inside-one-recording", "main.go wiring", fmt.Sprintf("%s holds %s, which is not a run of consecutive frames inside one of the processor's recordings %s", d.Name, seqsString(sq), describeRecs(exp)))
						return
					}
					continue
				}
				cut := sq[len(sq)-1] < host.Seqs[len(host.Seqs)-1]
				if cut {
					cuts++
					if len(sq) < minLen && (prop == "C06" || continuous) {
						c.Violation("throttled-file-shorter-than-min-plus-preview", "main.go wiring", fmt.Sprintf("%s holds %d frames %s and ends before its recording does (%s): it was cut by the throttle and must hold >= (min-secs+preview-secs)*fps = %d", d.Name, len(sq), seqsString(sq), seqsString(host.Seqs), minLen))
						return
					}
				}
			}
			c.Count("pipeline_runs", 1)
			c.Count("throttle_cut_files", int64(cuts))
			off, _, T2, bad2 := run(false)
			if bad2 != "" {
				c.Violation("pipeline-failed", "throttle off", bad2)
				return
			}
			if float64(off) <= bound {
				// on a slow machine the outer stopwatch makes the bound generous; the throttled run
				// above still stands, only the "activate=false really disables it" comparison is void
				c.Inconclusive(fmt.Sprintf("with activate=false only %d frames were recorded in %v (bound %.1f): the unthrottled configuration was not clearly different", off, T2, bound))
			} else {
				c.Count("unthrottled_runs_exceeding_bound", 1)
			}
			c.Count("pipeline_runs", 1)
			if idx%3 == 1 {
				c.Count("runs_with_continuous_recorder", 1)
			}
			if idx%4 == 3 {
				c.Count("runs_after_a_camera_with_another_fps", 1)
			}
			if idx%4 == 2 {
				c.Count("runs_with_default_min_refill", 1)
			}
			c.Count("frames_recorded_throttled", int64(got))
			c.Count("frames_recorded_unthrottled", int64(off))
			c.Count("throttled_files", int64(len(files)))
			c.Max("max:bound_slack_frames", int64(bound)-int64(got))
			c.Nontrivial(vNewHash().U64(uint64(idx)).Int(got).Int(off).Sum())
			c.Sample("wiring", func() interface{} {
				return map[string]interface{}{"throttled_frames": got, "unthrottled_frames": off, "bound": bound, "files": len(files), "cut_files": cuts, "elapsed": T.String()}
			})
		})
	}
}

// ---------------------------------------------------------------- C04 wiring

func availMB(dir string) uint64 {
	var fs syscall.Statfs_t
	if err := syscall.Statfs(dir, &fs); err != nil {
		return 0
	}
	return fs.Bavail * uint64(fs.Bsize) / 1024 / 1024
}

// freeMB is the free space including the blocks reserved for root (never what the disk check may use).
func freeMB(dir string) uint64 {
	var fs syscall.Statfs_t
	if err := syscall.Statfs(dir, &fs); err != nil {
		return 0
	}
	return fs.Bfree * uint64(fs.Bsize) / 1024 / 1024
}

func TestVerif_C04Pipe(t *testing.T) {
	// The recording window in config.toml is wall-clock time of the place the device stands in.
	// This process therefore lives in a time zone well away from UTC (set before anything else
	// runs; nothing changes it later).
	zones := []int{12*3600 + 45*60, -(9*3600 + 30*60), 5*3600 + 30*60}
	zi, _ := strconv.Atoi(vEnv("VERIF_SEED", "1"))
	if zi < 0 {
		zi = -zi
	}
	time.Local = time.FixedZone("verif", zones[zi%len(zones)])
	c := vStart(t, "C04", "TestVerif_C04Pipe")
	defer c.Finish()
	c.Note("process_time_zone_offset_seconds", fmt.Sprint(zones[zi%len(zones)]))
	scratch := vEnv("VERIF_SCRATCH", t.TempDir())
	cam := leptonCamera("lepton3", 16, 12, 9)
	frames := c10Frames(cam, "ffffmmmmffffffffffffffffffffffffmmmmffffffffffffffffffffffff")
	now := time.Now()
	hm := func(d time.Duration) string { return now.Add(d).Format("15:04") }
	type variant struct {
		Name       string
		DiskFactor float64 // min-disk-space-mb = factor * available
		WinStart   string
		WinStop    string
		WantMotion bool
	}
	vs := []variant{
		{"disk ok, no window", 0.5, "12:00", "12:00", true},
		{"min-disk-space above free space", 2, "12:00", "12:00", false},
		{"window open around now", 0, hm(-3 * time.Hour), hm(3 * time.Hour), true},
		{"window closed now", 0, hm(3 * time.Hour), hm(5 * time.Hour), false},
		{"window closed now, spanning midnight side", 0, hm(2 * time.Hour), hm(-2 * time.Hour), false},
		{"disk ok exactly at the boundary", 1, "12:00", "12:00", true},
		{"min-disk-space between the space available and the space free including root-reserved blocks", -1, "12:00", "12:00", false},
	}
	for idx, v := range vs {
		if !c.Mine(int64(idx)) {
			continue
		}
		v := v
		c.Case(int64(idx), func() interface{} { return fmt.Sprintf("%+v", v) }, func() {
			cfg := basicConfig()
			cfg.Constant = true
			cfg.MinSecs, cfg.MaxSecs, cfg.PreviewSecs = 1, 2, 1
			cfg.WindowStart, cfg.WindowStop = v.WinStart, v.WinStop
			// The boundary case compares the code's statfs reading with one taken by the harness; other
			// processes use the same file system. Free space is therefore sampled around every frame's
			// processing, an attempt during which any sample differs is void, and a disagreement only
			// counts when it repeats on three attempts with steady free space.
			var r *connRun
			var before uint64
			disagreements := 0
			for attempt := 0; ; attempt++ {
				before = availMB(scratch)
				cfg.MinDiskMB = uint64(v.DiskFactor * float64(before))
				if v.DiskFactor < 0 {
					reserve := freeMB(scratch) - before
					if freeMB(scratch) < before || reserve < 64 {
						c.Count("file_systems_without_reserved_blocks", 1)
						return
					}
					cfg.MinDiskMB = before + reserve/2
					c.Count("runs_with_min_disk_inside_the_root_reserve", 1)
				}
				var err error
				r, err = prepareConn(scratch, cfg, cam)
				if err != nil {
					c.Inconclusive("prepareConn: " + err.Error())
					return
				}
				defer r.cleanup()
				// as after any earlier run of the daemon, the continuous recorder's folder exists already
				os.MkdirAll(filepath.Join(r.OutDir, "constant-recordings"), 0755)
				if uint64(r.Conf.MinDiskSpace) != cfg.MinDiskMB {
					// the disk check the recorder is built with is the configured one (0 = check disabled)
					c.Violation("disk-check-differs-from-config", v.Name, fmt.Sprintf("config.toml says min-disk-space-mb = %d, the parsed configuration holds %d", cfg.MinDiskMB, r.Conf.MinDiskSpace))
					return
				}
				if cfg.MinDiskMB == 0 {
					c.Count("runs_with_disk_check_disabled", 1)
				}
				var moved int32
				r.serve(pacedFeed(cam, frames, 2*time.Millisecond), func(name string) {
					if v.DiskFactor == 1 && (name == "conn.frame.received" || name == "conn.frame.processed") && availMB(scratch) != before {
						atomic.StoreInt32(&moved, 1)
					}
				})
				if r.Err != io.EOF {
					c.Violation("pipeline-failed", v.Name, fmt.Sprintf("handleConn returned %v", r.Err))
					return
				}
				if v.DiskFactor != 1 {
					break
				}
				if atomic.LoadInt32(&moved) == 1 || availMB(scratch) != before {
					if attempt >= 5 {
						c.Inconclusive("free space kept changing during the boundary case")
						return
					}
					continue
				}
				expB, _ := expectRecordings(cfg, cam, frames)
				wantB := 0
				for _, e := range expB {
					if !e.Open {
						wantB++
					}
				}
				if len(decodeDir(r.OutDir)) == wantB {
					break
				}
				disagreements++
				if disagreements >= 3 {
					break
				}
			}
			mfiles := decodeDir(r.OutDir)
			cfiles := decodeDir(filepath.Join(r.OutDir, "constant-recordings"))
			exp, _ := expectRecordings(cfg, cam, frames)
			want := 0
			for _, e := range exp {
				if !e.Open {
					want++
				}
			}
			if !v.WantMotion {
				want = 0
			}
			if len(mfiles) != want {
				kind := "missing-start"
				if len(mfiles) > want {
					kind = "start-despite-closed-gate"
				}
				c.Violation(kind, v.Name, fmt.Sprintf("%d motion recordings, expected %d (%s; free %d MB, min-disk-space-mb %d, window %s-%s, now %s)", len(mfiles), want, v.Name, before, cfg.MinDiskMB, v.WinStart, v.WinStop, now.Format("15:04")))
				return
			}
			if len(cfiles) == 0 {
				c.Violation("continuous-recorder-gated", v.Name, "the constant recorder produced no file although it is independent of window and disk gates")
				return
			}
			c.Count("pipeline_gate_runs", 1)
			c.Count("pipeline_motion_files", int64(len(mfiles)))
			c.Nontrivial(vNewHash().Int(idx).Int(len(mfiles)).Int(len(cfiles)).Sum())
		})
	}
}

// TestVerif_C04Relink: the storage behind the output path changes while a camera is connected
// (a card mounted over it, a symbolic link pointed elsewhere): the disk check is about the place
// the next recording would go to, frame by frame. Two file systems with very different free
// space (the scratch disk and /dev/shm), min-disk-space-mb between the two, output-dir a
// symbolic link that is re-pointed between two motion bursts.
func TestVerif_C04Relink(t *testing.T) {
	c := vStart(t, "C04", "TestVerif_C04Relink")
	defer c.Finish()
	scratch := vEnv("VERIF_SCRATCH", t.TempDir())
	other, err := ioutil.TempDir("/dev/shm", "verif-c04-")
	if err != nil {
		c.Inconclusive("no second file system: " + err.Error())
		return
	}
	defer os.RemoveAll(other)
	cam := leptonCamera("lepton3", 16, 12, 9)
	frames := c10Frames(cam, "ffffmmmmffffffffffffffffffffffffffffffffffffmmmmffffffffffffffffffffffffffff")
	for idx := int64(0); idx < 2; idx++ {
		if !c.Mine(idx) {
			continue
		}
		idx := idx
		c.Case(idx, func() interface{} {
			return map[string]interface{}{"first_target": []string{"the roomier file system", "the fuller file system"}[idx], "re-pointed_before_frame": 24}
		}, func() {
			freeHere, freeThere := availMB(scratch), availMB(other)
			if freeHere < freeThere+2000 && freeThere < freeHere+2000 {
				c.Inconclusive(fmt.Sprintf("the two file systems have about the same free space (%d MB, %d MB)", freeHere, freeThere))
				return
			}
			cfg := basicConfig()
			cfg.MinSecs, cfg.MaxSecs, cfg.PreviewSecs = 1, 2, 1
			cfg.MinDiskMB = (freeHere + freeThere) / 2
			r, err := prepareConn(scratch, cfg, cam)
			if err != nil {
				c.Inconclusive("prepareConn: " + err.Error())
				return
			}
			defer r.cleanup()
			roomy, tight := filepath.Join(r.Dir, "store"), filepath.Join(other, fmt.Sprintf("store%d", idx))
			if freeThere > freeHere {
				roomy, tight = tight, roomy
			}
			os.MkdirAll(roomy, 0755)
			os.MkdirAll(tight, 0755)
			first, second := roomy, tight
			if idx == 1 {
				first, second = tight, roomy
			}
			os.RemoveAll(r.OutDir)
			if err := os.Symlink(first, r.OutDir); err != nil {
				c.Inconclusive(err.Error())
				return
			}
			var rx int64
			r.serve(pacedFeed(cam, frames, 2*time.Millisecond), func(name string) {
				if name == "conn.frame.received" && atomic.AddInt64(&rx, 1) == 24 {
					os.Remove(r.OutDir)
					os.Symlink(second, r.OutDir)
				}
			})
			if r.Err != io.EOF {
				c.Violation("pipeline-failed", "output path re-pointed", fmt.Sprintf("handleConn returned %v", r.Err))
				return
			}
			nRoomy, nTight := len(decodeDir(roomy)), len(decodeDir(tight))
			if nTight != 0 {
				c.Violation("start-despite-closed-gate", "output path re-pointed to a fuller file system", fmt.Sprintf("%d recording(s) were started on the file system with %d MB free although min-disk-space-mb is %d (the other one has %d MB)", nTight, minU64(freeHere, freeThere), cfg.MinDiskMB, maxU64(freeHere, freeThere)))
				return
			}
			if nRoomy != 1 {
				c.Violation("missing-start", "output path re-pointed to a roomier file system", fmt.Sprintf("%d recordings on the file system with %d MB free (min-disk-space-mb %d), expected the one motion burst that happened while the output path led there", nRoomy, maxU64(freeHere, freeThere), cfg.MinDiskMB))
				return
			}
			c.Count("connections_with_the_output_path_re-pointed", 1)
			c.Nontrivial(vNewHash().Int(int(idx)).Sum())
		})
	}
}

func minU64(a, b uint64) uint64 {
	if a < b {
		return a
	}
	return b
}
func maxU64(a, b uint64) uint64 {
	if a > b {
		return a
	}
	return b
}

// TestVerif_C04PipeRetry: storage that recovers in the middle of a motion run - the refused
// start must be retried on the next motion frame of the same run (real CheckCanRecord / statfs).
func TestVerif_C04PipeRetry(t *testing.T) {
	c := vStart(t, "C04", "TestVerif_C04PipeRetry")
	defer c.Finish()
	scratch := vEnv("VERIF_SCRATCH", t.TempDir())
	n := c.N(8, 64)
	for idx := int64(0); idx < n; idx++ {
		if !c.Mine(idx) {
			continue
		}
		rng := c.RNG(idx)
		cam := leptonCamera("lepton3", 16, 12, 9)
		cfg := basicConfig()
		cfg.MinSecs, cfg.MaxSecs, cfg.PreviewSecs = 1, 3, 1
		cfg.Motion = simpleMotion(rng.Range(1, 3), 1)
		quiet := rng.Range(3, 10)
		run := rng.Range(30, 60)
		frames := c10Frames(cam, strings.Repeat("f", quiet)+strings.Repeat("m", run)+strings.Repeat("f", 15))
		gone := rng.Range(0, quiet)                                   // the output directory vanishes before the run
		back := quiet + rng.Range(cfg.Motion.TriggerFrames+1, run-12) // and is back in the middle of it
		c.Case(idx, func() interface{} {
			return map[string]interface{}{"quiet_frames": quiet, "motion_run": run, "trigger_frames": cfg.Motion.TriggerFrames, "output_dir_removed_before_frame": gone, "restored_before_frame": back}
		}, func() {
			r, err := prepareConn(scratch, cfg, cam)
			if err != nil {
				c.Inconclusive("prepareConn: " + err.Error())
				return
			}
			defer r.cleanup()
			saved := r.OutDir + ".away"
			var rx int64
			r.serve(pacedFeed(cam, frames, 2*time.Millisecond), func(name string) {
				if name != "conn.frame.received" {
					return
				}
				k := int(atomic.AddInt64(&rx, 1)) - 1
				if k == gone {
					os.Rename(r.OutDir, saved)
				}
				if k == back {
					os.Rename(saved, r.OutDir)
				}
			})
			if r.Err != io.EOF {
				c.Violation("pipeline-failed", "storage recovers mid-run", fmt.Sprintf("handleConn returned %v", r.Err))
				return
			}
			found := false
			var lists []string
			for _, d := range decodeDir(r.OutDir) {
				sq := d.seqs()
				lists = append(lists, seqsString(sq))
				if d.Err == "" && len(sq) > 0 && sq[0] <= back && sq[len(sq)-1] >= back {
					found = true
				}
			}
			if !found {
				c.Violation("missing-start", "storage recovers mid-run", fmt.Sprintf("the output directory was unavailable from frame %d and back before frame %d, in the middle of a motion run (frames %d..%d): the refused start must be retried on the next motion frame, i.e. a recording containing frame %d - files: %v", gone, back, quiet, quiet+run-1, back, lists))
				return
			}
			c.Count("pipeline_retry_runs", 1)
			c.Nontrivial(vNewHash().U64(uint64(idx)).Int(gone).Int(back).Sum())
		})
	}
}

// ---------------------------------------------------------------- C17 wiring

func TestVerif_C17Pipe(t *testing.T) {
	// also a job of C14: 'clear' markers in the stream, one of them inside a test recording
	prop := vEnv("VERIF_PROP", "C17")
	if prop != "C14" {
		prop = "C17"
	}
	c := vStart(t, prop, "TestVerif_C17Pipe")
	defer c.Finish()
	scratch := vEnv("VERIF_SCRATCH", t.TempDir())
	n := c.N(8, 64)
	for idx := int64(0); idx < n; idx++ {
		if !c.Mine(idx) {
			continue
		}
		rng := c.RNG(idx)
		cam := leptonCamera("lepton3", 16, 12, rng.Range(2, 9))
		cfg := basicConfig()
		cfg.Constant = true
		cfg.MinSecs, cfg.MaxSecs, cfg.PreviewSecs = 1, rng.Range(1, 2), 1
		// continuous files must not depend on throttling or the window
		cfg.Throttle, cfg.BucketSize, cfg.MinRefill = rng.Bool(), "2s", "1h"
		if rng.Bool() {
			cfg.WindowStart, cfg.WindowStop = time.Now().Add(3*time.Hour).Format("15:04"), time.Now().Add(5*time.Hour).Format("15:04")
		}
		if idx%4 == 1 {
			// thermal-motion settings that print longer than the camera-model defaults (five-digit
			// limits, two-digit counts): the header text of every file stays within what the CPTV
			// format can hold
			cam = leptonCamera("lepton3.5", 16, 12, cam.FPS)
			cfg.Motion = pMotion{Set: map[string]bool{"temp-thresh-min": true, "temp-thresh-max": true, "count-thresh": true, "frame-compare-gap": true, "trigger-frames": true, "dynamic-threshold": true, "temp-thresh": true, "delta-thresh": true, "edge-pixels": true},
				DynamicThreshold: false, TempThresh: 28000, TempThreshMin: 28000, TempThreshMax: 31000, CountThresh: 12, FrameCompareGap: 45, TriggerFrames: 10, DeltaThresh: 20000, EdgePixels: 1}
		}
		lowDisk := idx%3 == 2
		if lowDisk {
			// not enough free space for motion recordings: the continuous recorder and test
			// recordings are not gated by it and must be left alone
			cfg.MinDiskMB = 2*availMB(scratch) + 1000
		}
		// every fourth connection: files far shorter than the millisecond their names resolve
		// (1 fps, max-secs 1: two frames each, fed at full speed), in an output directory whose
		// name contains pattern characters - each file still gets a name of its own
		tiny := idx%4 == 2
		if tiny {
			cam = leptonCamera("lepton3", 16, 12, 1)
			cfg.MaxSecs = 1
		}
		fileLen := cfg.MaxSecs*cam.FPS + 1
		nf := fileLen * rng.Range(3, 6)
		if tiny {
			nf *= 10
		}
		motionPct := rng.PickInt(0, 50, 100)
		frames := genStream(rng, cam, 1, streamOpts{Frames: nf, MotionPct: motionPct})
		if lowDisk {
			frames = genStream(rng, cam, 1, streamOpts{Frames: nf, MotionPct: 100})
		}
		req1 := rng.Range(2, nf/3)
		req2 := req1 + 21 + rng.Range(0, 10)
		// without motion recordings (a still scene, or the disk gate closed) every file in the
		// output directory is a test recording
		onlyTestFiles := motionPct == 0 || lowDisk
		withClears := idx%4 == 0 && !lowDisk
		if withClears {
			// camera resets in the stream, one of them a few frames into the first test recording:
			// they neither end nor restart a test recording and cost the continuous files nothing
			// but the split the reset itself makes
			at := map[int]bool{req1 + 1 + int(idx/4)%15: true, nf / 2: true, nf - 2: true}
			var withMarkers []*pFrame
			k := 0
			for _, f := range frames {
				if at[k] {
					withMarkers = append(withMarkers, &pFrame{Clear: true, Seq: -1})
				}
				withMarkers = append(withMarkers, f)
				k++
			}
			frames = withMarkers
		}
		// every fourth connection: the camera's telemetry is frozen (same non-zero frame counter,
		// time-on and temperatures on every frame) while the pictures differ; frames are then
		// identified by a border pixel
		frozen := idx%4 == 3
		wantC := expectContinuous(cfg, cam, frames)
		if frozen {
			k := 0
			for _, f := range frames {
				if f.Clear {
					continue
				}
				f.Pix[0][0] = uint16(1000 + k)
				f.Seq, f.TimeOnMS, f.StatusBits, f.FrameMean, f.FPATempCK, f.FPAFFCCK, f.LastFFCMS = 777, timeOnFor(777), 0, 3000, 30000, 30000, 0
				k++
			}
		}
		idsOf := func(d *decFile) []int {
			if !frozen {
				return d.seqs()
			}
			out := []int{}
			for _, fr := range d.Frames {
				if !fr.Background {
					out = append(out, int(fr.Pix[0][0])-1000)
				}
			}
			return out
		}
		c.Case(idx, func() interface{} {
			return map[string]interface{}{"fps": cam.FPS, "max_secs": cfg.MaxSecs, "frames": nf, "throttle": cfg.Throttle, "telemetry_frozen": frozen, "window": cfg.WindowStart + "-" + cfg.WindowStop, "test_recording_requests_before_frames": []int{req1, req2}}
		}, func() {
			if tiny {
				prepareOutName = "cptv.temp [site 7] *?" // (pattern characters, and the temporary-file suffix in a directory name)
			}
			r, err := prepareConn(scratch, cfg, cam)
			prepareOutName = ""
			if err != nil {
				c.Inconclusive("prepareConn: " + err.Error())
				return
			}
			defer r.cleanup()
			if idx%2 == 1 {
				// second and later connections share the output directory with the first one
				pf := &pFrame{Seq: 50000, TimeOnMS: timeOnFor(50000), Pix: newPix(cam.ResX, cam.ResY, 3000), FPATempCK: 30000, FPAFFCCK: 30000}
				r.serve(pacedFeed(cam, []*pFrame{pf}, 0), nil)
				c.Count("pipeline_runs_after_a_reconnect", 1)
			}
			var rx int64
			pace := 2 * time.Millisecond
			if tiny {
				pace = 0
			}
			// (tiny files) finished recordings that already bear the names of the next 200 ms - what a
			// clock set back, or another recorder sharing the folder, leaves: they are never replaced
			planted := map[string]bool{}
			var plantedBytes []byte
			cdir := filepath.Join(r.OutDir, "constant-recordings")
			r.serve(pacedFeed(cam, frames, pace), func(name string) {
				if name == "conn.frame.received" {
					k := int(atomic.AddInt64(&rx, 1)) - 1 // index of the frame about to be processed
					if k == req1 || k == req2 {
						newSnapshotRecording()
					}
					if tiny && k == 9 {
						for _, n := range dirListing(cdir) {
							if strings.HasSuffix(n, ".cptv") {
								plantedBytes, _ = ioutil.ReadFile(filepath.Join(cdir, n))
								break
							}
						}
						now := time.Now()
						// (from two milliseconds ahead: a file in progress may legitimately bear this
						// millisecond's name already, and none that has a temporary file)
						for i := 2; i < 200 && len(plantedBytes) > 0; i++ {
							n := now.Add(time.Duration(i)*time.Millisecond).Format("20060102.150405.000.") + "cptv"
							if _, err := os.Lstat(filepath.Join(cdir, n+".temp")); err == nil {
								continue
							}
							if f, err := os.OpenFile(filepath.Join(cdir, n), os.O_CREATE|os.O_EXCL|os.O_WRONLY, 0644); err == nil {
								f.Write(plantedBytes)
								f.Close()
								planted[n] = true
							}
						}
					}
				}
			})
			if r.Err != io.EOF {
				c.Violation("pipeline-failed", "", fmt.Sprintf("handleConn returned %v", r.Err))
				return
			}
			for n := range planted {
				if b, err := ioutil.ReadFile(filepath.Join(cdir, n)); err != nil || !bytes.Equal(b, plantedBytes) {
					c.Violation("finished-recording-replaced", "main.go wiring", fmt.Sprintf("%s, a finished recording that was in the continuous recorder's folder before a file of that name was started, now reads %d bytes (err %v), it had %d: its frames are in no file any more", n, len(b), err, len(plantedBytes)))
					return
				}
			}
			if tiny {
				c.Count("finished_recordings_in_the_way_left_alone", int64(len(planted)))
			}
			var cfiles []*decFile
			for _, d := range decodeDir(cdir) {
				if !planted[d.Name] {
					cfiles = append(cfiles, d)
				}
			}
			want := wantC
			if frozen {
				// decodeDir orders files by telemetry, which says nothing here: order by content
				sort.Slice(cfiles, func(a, b int) bool {
					x, y := idsOf(cfiles[a]), idsOf(cfiles[b])
					return len(x) > 0 && len(y) > 0 && x[0] < y[0]
				})
				c.Count("runs_with_frozen_telemetry", 1)
			}
			if len(cfiles) != len(want) {
				c.Violation("continuous-files", "main.go wiring", fmt.Sprintf("%d continuous files, expected %d (throttle=%v window=%s-%s)", len(cfiles), len(want), cfg.Throttle, cfg.WindowStart, cfg.WindowStop))
				return
			}
			for i, d := range cfiles {
				if d.Err != "" || !intsEqual(idsOf(d), want[i]) {
					c.Violation("continuous-files", "main.go wiring", fmt.Sprintf("continuous file %d: %s %s, expected %s (telemetry frozen: %v)", i, d.Err, seqsString(idsOf(d)), seqsString(want[i]), frozen))
					return
				}
			}
			// test recordings: 21 consecutive frames starting with the frame processed next
			found := 0
			for _, d := range decodeDir(r.OutDir) {
				s := idsOf(d)
				if d.Err == "" && len(s) > 0 && (s[0] == req1 || s[0] == req2) && len(s) == 21 {
					ok := true
					for k := 1; k < len(s); k++ {
						ok = ok && s[k] == s[k-1]+1
					}
					if ok {
						found++
					}
				}
			}
			wantTest := 0
			for _, q := range []int{req1, req2} {
				if q+21 <= nf {
					wantTest++
				}
			}
			if onlyTestFiles && !frozen {
				// a request too late to get its 21 frames before the connection ends yields no file
				for _, d := range decodeDir(r.OutDir) {
					if s := idsOf(d); d.Err != "" || len(s) != 21 {
						c.Violation("test-recording", "main.go wiring", fmt.Sprintf("no motion recording can have been made on this connection (%d frames, requests before frames %d and %d); the output directory holds %s with frames %s %s", nf, req1, req2, d.Name, seqsString(s), d.Err))
						return
					}
				}
				c.Count("runs_where_every_file_is_a_test_recording", 1)
			}
			if withClears {
				c.Count("runs_with_clear_markers", 1)
			}
			if found != wantTest {
				names := []string{}
				for _, d := range decodeDir(r.OutDir) {
					names = append(names, seqsString(idsOf(d)))
				}
				c.Violation("test-recording", "main.go wiring", fmt.Sprintf("%d of %d requested test recordings found as 21 consecutive frames starting at frames %d / %d; files in the output directory: %v", found, wantTest, req1, req2, names))
				return
			}
			c.Count("pipeline_runs", 1)
			if idx%4 == 1 {
				c.Count("runs_with_long_motion_settings", 1)
			}
			if tiny {
				c.Count("runs_with_files_shorter_than_a_millisecond", 1)
			}
			if lowDisk {
				c.Count("pipeline_runs_with_low_disk", 1)
			}
			c.Count("pipeline_continuous_files", int64(len(cfiles)))
			c.Count("pipeline_test_recordings", int64(found))
			c.Nontrivial(vNewHash().U64(uint64(idx)).Int(len(cfiles)).Int(found).Sum())
		})
	}
}

// ---------------------------------------------------------------- C12 wiring (real I/O faults)

func TestVerif_C12Pipe(t *testing.T) {
	c := vStart(t, "C12", "TestVerif_C12Pipe")
	defer c.Finish()
	// a storage fault that wedges the frame loop (a retry loop that never ends) shows as a
	// connection that is never finished
	c.CaseWatchdog(120 * time.Second)
	scratch := vEnv("VERIF_SCRATCH", t.TempDir())
	n := c.N(24, 400)
	for idx := int64(0); idx < n; idx++ {
		if !c.Mine(idx) {
			continue
		}
		rng := c.RNG(idx)
		cam := leptonCamera("lepton3", 16, 12, 3)
		cfg := basicConfig()
		cfg.Constant = rng.Chance(70)
		cfg.MinSecs, cfg.MaxSecs, cfg.PreviewSecs = 1, 2, 1
		cfg.Motion = simpleMotion(1, 1)
		// bursts of motion separated by quiet stretches; faults injected at hook-chosen points
		pattern := ""
		for b := 0; b < 6; b++ {
			pattern += strings.Repeat("f", rng.Range(3, 8)) + strings.Repeat("m", rng.Range(2, 12))
		}
		pattern += strings.Repeat("f", 12) + "mmm" + strings.Repeat("f", 12) // fault-free recovery burst
		frames := c10Frames(cam, pattern)
		nf := len(frames)
		faultKind := rng.Intn(3) // 0 remove output dir, 1 unlink temp files during a recording, 2 both
		if idx%6 == 2 {
			faultKind = 3 // the output directory's path is a plain file for a while (a card that failed to mount)
		}
		watcher := idx%4 == 1
		if watcher {
			// a real recording window, open now
			cfg.WindowStart, cfg.WindowStop = time.Now().Add(-3*time.Hour).Format("15:04"), time.Now().Add(3*time.Hour).Format("15:04")
		}
		faultFrom := rng.Range(2, nf/3)
		faultTo := nf - 27 - rng.Range(0, 5)
		testReq := rng.Range(1, nf-30)
		if faultKind == 3 {
			testReq = faultFrom + 2 // the test recording is asked for while the path is unusable
		}
		longName := idx%6 == 4
		if longName {
			// a device name the CPTV header cannot hold: every recording start fails after its file
			// was created, for every sink, for the whole connection
			cfg.DeviceName = strings.Repeat("n", 300)
		}
		c.Case(idx, func() interface{} {
			return map[string]interface{}{"stream": pattern, "constant_recorder": cfg.Constant, "device_name_bytes": len(cfg.DeviceName), "fault_kind": []string{"output directory removed", "temp files unlinked mid-recording", "both", "output directory replaced by a plain file"}[faultKind],
				"fault_from_frame": faultFrom, "fault_until_frame": faultTo, "test_recording_request_before_frame": testReq}
		}, func() {
			r, err := prepareConn(scratch, cfg, cam)
			if err != nil {
				c.Inconclusive("prepareConn: " + err.Error())
				return
			}
			defer r.cleanup()
			if watcher {
				// as in the daemon, the configuration watcher runs next to the frame loop; config.toml is
				// saved again without any relevant change before the camera connects
				lb := &lockedBuf{}
				log.SetOutput(lb)
				go checkConfigChanges(r.Conf, r.ConfDir)
				time.Sleep(150 * time.Millisecond)
				ioutil.WriteFile(filepath.Join(r.ConfDir, "config.toml"), []byte(cfg.toml(r.OutDir, filepath.Join(r.Dir, "frames.sock"))), 0644)
				seen := false
				for i := 0; i < 500 && !seen; i++ {
					time.Sleep(10 * time.Millisecond)
					seen = strings.Contains(lb.String(), "No relevant changes")
				}
				log.SetOutput(ioutil.Discard)
				if seen {
					c.Count("runs_after_the_config_watcher_compared_configs", 1)
				}
			}
			var rx int64
			faults := 0
			saved := r.OutDir + ".moved"
			r.serve(pacedFeed(cam, frames, 2*time.Millisecond), func(name string) {
				if name != "conn.frame.received" {
					return
				}
				k := int(atomic.AddInt64(&rx, 1)) - 1
				if k == testReq {
					newSnapshotRecording()
				}
				if k == faultFrom && faultKind == 3 {
					if os.Rename(r.OutDir, saved) == nil && ioutil.WriteFile(r.OutDir, []byte("not a directory"), 0644) == nil {
						faults++
					}
				}
				if k == faultTo && faultKind == 3 {
					os.Remove(r.OutDir)
					os.Rename(saved, r.OutDir)
				}
				if k == faultFrom && (faultKind == 0 || faultKind == 2) {
					// the output directory disappears (e.g. an unmounted card): starts must fail, not crash
					if os.Rename(r.OutDir, saved) == nil {
						faults++
					}
				}
				if k >= faultFrom && k < faultTo && (faultKind == 1 || faultKind == 2) && k%3 == 0 {
					for _, dir := range []string{r.OutDir, filepath.Join(r.OutDir, "constant-recordings"), saved, filepath.Join(saved, "constant-recordings")} {
						m, _ := filepath.Glob(filepath.Join(dir, "*.cptv.temp"))
						for _, f := range m {
							if os.Remove(f) == nil {
								faults++
							}
						}
					}
				}
				if k == faultTo && (faultKind == 0 || faultKind == 2) {
					os.Rename(saved, r.OutDir)
				}
			})
			if r.Err != io.EOF {
				c.Violation("pipeline-crashed-on-storage-fault", []string{"output directory removed", "temp files unlinked", "both", "output directory replaced by a plain file"}[faultKind], fmt.Sprintf("handleConn returned %v after %d injected faults", r.Err, faults))
				return
			}
			if got := r.Hooks.counts["conn.frame.processed"]; got != nf {
				c.Violation("frame-loop-stalled", "", fmt.Sprintf("%d of %d frames processed", got, nf))
				return
			}
			if longName {
				// no start can have succeeded: nothing may be published as a finished recording
				fin, _ := filepath.Glob(filepath.Join(r.OutDir, "*.cptv"))
				fin2, _ := filepath.Glob(filepath.Join(r.OutDir, "constant-recordings", "*.cptv"))
				if len(fin)+len(fin2) > 0 {
					c.Violation("recording-published-after-failed-start", "", fmt.Sprintf("every start fails at the header, yet %d finished recordings exist: %v", len(fin)+len(fin2), append(fin, fin2...)))
					return
				}
				c.Count("pipeline_runs_with_failing_header_writes", 1)
				c.Count("pipeline_fault_runs", 1)
				c.Count("pipeline_faults_injected", int64(faults))
				c.Nontrivial(vNewHash().U64(uint64(idx)).Int(faults).Sum())
				return
			}
			// bounded progress: the last, fault-free motion burst must have been recorded normally
			lastBurst := nf - 15
			ok := false
			for _, d := range decodeDir(r.OutDir) {
				s := d.seqs()
				if d.Err == "" && len(s) > 0 && s[0] <= lastBurst && s[len(s)-1] >= lastBurst {
					ok = true
					for k := 1; k < len(s); k++ {
						ok = ok && s[k] == s[k-1]+1
					}
				}
			}
			if !ok {
				c.Violation("no-recording-after-fault", "", fmt.Sprintf("after the storage faults ended at frame %d the motion burst at frame %d was not recorded as a decodable file", faultTo, lastBurst))
				return
			}
			c.Count("pipeline_fault_runs", 1)
			if faultKind == 3 {
				c.Count("pipeline_runs_with_the_output_path_a_plain_file", 1)
			}
			c.Count("pipeline_faults_injected", int64(faults))
			c.Nontrivial(vNewHash().U64(uint64(idx)).Int(faults).Sum())
		})
	}
}

// TestVerif_C04Bursts: many well-separated motion bursts on ONE connection through the real
// file recorder, with a dynamic threshold that moves between them (the scene cools down): every
// burst completes a run of trigger-frames motion frames with window, disk and file creation
// all fine, so every burst must get its recording - the first as well as the tenth.
func TestVerif_C04Bursts(t *testing.T) {
	c := vStart(t, "C04", "TestVerif_C04Bursts")
	defer c.Finish()
	scratch := vEnv("VERIF_SCRATCH", t.TempDir())
	n := c.N(8, 64)
	for idx := int64(0); idx < n; idx++ {
		if !c.Mine(idx) {
			continue
		}
		rng := c.RNG(idx)
		model := []string{"lepton3", "lepton3.5"}[idx%2]
		fps := rng.PickInt(3, 9)
		cam := leptonCamera(model, 16, 12, fps)
		cfg := basicConfig()
		cfg.MinSecs, cfg.MaxSecs, cfg.PreviewSecs = 1, 2, 1
		trig := rng.Range(1, 2)
		cfg.Motion = pMotion{Set: map[string]bool{"trigger-frames": true, "count-thresh": true, "frame-compare-gap": true}, TriggerFrames: trig, CountThresh: 1, FrameCompareGap: 1}
		base := 3000
		if model == "lepton3.5" {
			base = 28500
		}
		bursts := rng.Range(6, 12)
		quiet := (cfg.MaxSecs+cfg.PreviewSecs+2)*fps + 3
		var frames []*pFrame
		seq := 0
		hotAt := map[int]bool{}
		for b := 0; b < bursts; b++ {
			level := base + 120*(bursts-b) // the scene cools between bursts: the background and with it the dynamic threshold follow at once
			for i := 0; i < quiet; i++ {
				frames = append(frames, &pFrame{Seq: seq, TimeOnMS: timeOnFor(seq), FPATempCK: 30000, FPAFFCCK: 30000, Pix: newPix(cam.ResX, cam.ResY, uint16(level))})
				seq++
			}
			for i := 0; i < trig+2; i++ {
				f := &pFrame{Seq: seq, TimeOnMS: timeOnFor(seq), FPATempCK: 30000, FPAFFCCK: 30000, Pix: newPix(cam.ResX, cam.ResY, uint16(level))}
				bx := 2 + (i*3)%9
				for y := 4; y < 7; y++ {
					for x := bx; x < bx+3; x++ {
						f.Pix[y][x] = uint16(level + 20000)
					}
				}
				hotAt[seq] = true
				frames = append(frames, f)
				seq++
			}
		}
		for i := 0; i < quiet; i++ {
			frames = append(frames, &pFrame{Seq: seq, TimeOnMS: timeOnFor(seq), FPATempCK: 30000, FPAFFCCK: 30000, Pix: newPix(cam.ResX, cam.ResY, uint16(base))})
			seq++
		}
		c.Case(idx, func() interface{} {
			return map[string]interface{}{"camera_model": model, "fps": fps, "trigger_frames": trig, "bursts": bursts, "frames": len(frames), "scene": "flat, 120 counts cooler before every burst; dynamic threshold (camera-model defaults)"}
		}, func() {
			r, err := prepareConn(scratch, cfg, cam)
			if err != nil {
				c.Inconclusive("prepareConn: " + err.Error())
				return
			}
			defer r.cleanup()
			r.serve(pacedFeed(cam, frames, 0), nil)
			if r.Err != io.EOF {
				c.Violation("pipeline-failed", "many bursts on one connection", fmt.Sprintf("handleConn returned %v", r.Err))
				return
			}
			files := decodeDir(r.OutDir)
			got := 0
			thresholds := map[string]bool{}
			for _, d := range files {
				if d.Err != "" {
					c.Violation("pipeline-failed", "many bursts on one connection", d.Name+": "+d.Err)
					return
				}
				for _, s := range d.seqs() {
					if hotAt[s] {
						got++
						break
					}
				}
				thresholds[d.Motion] = true
			}
			if got != bursts {
				c.Violation("missing-start", "many bursts on one connection", fmt.Sprintf("%d motion bursts (each %d frames with a block 20000 counts above a flat scene, window open, disk fine), %d recordings holding burst frames; files: %s; leftovers in the output directory: %v", bursts, trig+2, got, filesString(files), debris(r.OutDir)))
				return
			}
			c.Count("burst_connections", 1)
			c.Count("bursts_recorded", int64(got))
			c.Count("distinct_header_motion_texts", int64(len(thresholds)))
			c.Nontrivial(vNewHash().U64(uint64(idx)).Int(bursts).Int(len(thresholds)).Sum())
		})
	}
}

// lockedBuf is a log sink that can be read while other goroutines log.
type lockedBuf struct {
	mu sync.Mutex
	b  bytes.Buffer
}

func (l *lockedBuf) Write(p []byte) (int, error) {
	l.mu.Lock()
	defer l.mu.Unlock()
	return l.b.Write(p)
}
func (l *lockedBuf) String() string {
	l.mu.Lock()
	defer l.mu.Unlock()
	return l.b.String()
}
