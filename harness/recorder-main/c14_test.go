//go:build verif
// +build verif

package main

// C14 (pipeline part) - the byte stream from the camera daemon, cut into
// arbitrary reads: header round-trips, frames delivered exactly once in order,
// 'clear' resets without losing alignment.

import (
	"fmt"
	"io"
	"os"
	"path/filepath"
	"sort"
	"strings"
	"testing"
	"time"

	"github.com/TheCacophonyProject/thermal-recorder/headers"
)

type streamOpts struct {
	Frames     int
	Clears     int
	BadPct     int
	Content    int // 0 static scene + toggling hot pixel, 1 random 16-bit per frame, 2 checkerboard extremes
	MotionPct  int
	ClearFirst bool
	ClearLast  bool
	DoubleClr  bool
}

// genStream builds the frame/marker sequence.
func genStream(rng *vRNG, cam pCamera, edge int, o streamOpts) []*pFrame {
	scene := newPix(cam.ResX, cam.ResY, 0)
	for y := range scene {
		for x := range scene[y] {
			scene[y][x] = uint16(2000 + rng.Intn(3000))
		}
	}
	clearAt := map[int]int{}
	for i := 0; i < o.Clears; i++ {
		clearAt[rng.Intn(o.Frames+1)]++
	}
	if o.ClearFirst {
		clearAt[0]++
	}
	if o.ClearLast {
		clearAt[o.Frames]++
	}
	if o.DoubleClr {
		clearAt[rng.Intn(o.Frames+1)] += 2
	}
	var out []*pFrame
	hot := uint16(20000)
	hx, hy := edge+rng.Intn(cam.ResX-2*edge), edge+rng.Intn(cam.ResY-2*edge)
	burst := false
	seq := 0
	for i := 0; i <= o.Frames; i++ {
		for k := 0; k < clearAt[i]; k++ {
			out = append(out, &pFrame{Clear: true, Seq: -1})
		}
		if i == o.Frames {
			break
		}
		f := &pFrame{Seq: seq, TimeOnMS: timeOnFor(seq), LastFFCMS: 0, FPATempCK: uint16(29000 + rng.Intn(2000)), FPAFFCCK: uint16(29000 + rng.Intn(2000)),
			StatusBits: uint32(rng.Intn(4)) << 4, FrameMean: uint16(rng.Intn(65536))}
		seq++
		if rng.Chance(10) {
			burst = !burst
		}
		switch o.Content {
		case 1:
			f.Pix = newPix(cam.ResX, cam.ResY, 0)
			for y := range f.Pix {
				for x := range f.Pix[y] {
					v := uint16(rng.Intn(65536))
					if rng.Chance(5) {
						v = uint16(rng.PickInt(1, 65535, 32768))
					}
					if v == 0 {
						v = 1
					}
					f.Pix[y][x] = v
				}
			}
		case 2:
			f.Pix = newPix(cam.ResX, cam.ResY, 0)
			for y := range f.Pix {
				for x := range f.Pix[y] {
					if (x+y+f.Seq)%2 == 0 {
						f.Pix[y][x] = 1
					} else {
						f.Pix[y][x] = 65535
					}
				}
			}
		default:
			f.Pix = newPix(cam.ResX, cam.ResY, 0)
			for y := range f.Pix {
				copy(f.Pix[y], scene[y])
			}
			pm := o.MotionPct
			if !burst {
				pm /= 5
			}
			if rng.Chance(pm) {
				hot = 50000 - hot // toggles 20000 <-> 30000
				f.MotionAimed = true
			}
			f.Pix[hy][hx] = hot
		}
		// a frame whose first bytes look like the start of the 'clear' marker (only the
		// full 5-byte marker is a reset); boson frames begin with pixel data
		if cam.Model == "boson" && edge > 0 && rng.Chance(10) {
			f.Pix[0][0], f.Pix[0][1] = 0x6c63, 0x6165 // "clea" little-endian
			f.Pix[0][2] = uint16(rng.PickInt(0x0073, 0x7200, 0x0052, 0x1234))
			f.MarkerLike = true
		}
		// border zeros are legal when the edge is excluded
		if edge > 0 && !f.MarkerLike && rng.Chance(20) {
			f.Pix[0][rng.Intn(cam.ResX)] = 0
			f.Pix[cam.ResY-1][rng.Intn(cam.ResX)] = 0
			// ... also in the innermost border column on either side, on a row that is not itself
			// border (rows picked without the PRNG, so that older case lists keep their streams)
			if rows := cam.ResY - 2*edge; rows > 0 {
				f.Pix[edge+(len(out)*7+3)%rows][edge-1] = 0
				f.Pix[edge+(len(out)*5+1)%rows][cam.ResX-edge] = 0
			}
		}
		if edge > 3 && !f.MarkerLike && rng.Chance(50) {
			// ... anywhere in a wide border, up to its innermost row and column
			f.Pix[edge-1][rng.Intn(cam.ResX)] = 0
			f.Pix[rng.Intn(cam.ResY)][cam.ResX-edge] = 0
			f.Pix[rng.Range(0, edge-1)][rng.Range(0, cam.ResX-1)] = 0
			f.WideBorderZero = true
		}
		if o.BadPct > 0 && rng.Intn(100) < o.BadPct {
			f.Pix[edge+rng.Intn(cam.ResY-2*edge)][edge+rng.Intn(cam.ResX-2*edge)] = 0
			f.Bad = true
		}
		out = append(out, f)
	}
	return out
}

func feedStream(cam pCamera, hdr []byte, frames []*pFrame, cw *chunkWriter) func(w io.Writer) error {
	return func(w io.Writer) error {
		cw.w = w
		// header and frames form one byte stream: segment boundaries fall anywhere, and
		// often the write that carries the end of the header also carries frame bytes
		buf := append([]byte{}, hdr...)
		if cw.rng.Chance(30) {
			if err := cw.Write(buf); err != nil {
				return err
			}
			buf = buf[:0]
		}
		for _, f := range frames {
			if f.Clear {
				buf = append(buf, []byte("clear")...)
			} else {
				buf = append(buf, f.raw(cam)...)
			}
			// bursts larger than bufio's 4096-byte buffer
			if len(buf) > 9000 || cw.rng.Chance(50) {
				if err := cw.Write(buf); err != nil {
					return err
				}
				buf = buf[:0]
			}
		}
		return cw.Write(buf)
	}
}

func randomCamera(rng *vRNG, allowBig bool) pCamera {
	fps := rng.Range(1, 9)
	var cam pCamera
	switch rng.Intn(5) {
	case 0:
		cam = bosonCamera(16, 12, fps)
	case 1:
		cam = leptonCamera("lepton3.5", 16, 12, fps)
	default:
		cam = leptonCamera("lepton3", 16, 12, fps)
	}
	if allowBig && rng.Chance(4) {
		cam = leptonCamera("lepton3", 160, 120, 9)
	}
	cam.Serial = pickSerial(rng, 0, 1, 12345, 1<<31-1, 1<<31, 1<<32-1)
	cam.Firmware = []string{"1.2.3", "0.0.0", "3.3.26", "true", "1.2", "0x1F", "~", "a: b", "#c", " lead", "trail ", "q\"uote'", "tab\there", "ünïcödé-火", "null", "- x", "[1]", "{a}", "*star", "&anchor", "!tag", "|", ">", "%dir", "@at", "`tick"}[rng.Intn(26)]
	return cam
}

type sentIndex map[int]*pFrame

func indexFrames(frames []*pFrame) sentIndex {
	m := sentIndex{}
	for _, f := range frames {
		if !f.Clear {
			m[f.Seq] = f
		}
	}
	return m
}

// checkFileFrames verifies that every non-background frame of a decoded file
// is pixel- and telemetry-identical to the sent frame with the same id.
func checkFileFrames(d *decFile, sent sentIndex, cam pCamera) string {
	for i, fr := range d.Frames {
		if fr.Background {
			continue
		}
		if cam.Model == "boson" {
			continue // boson frames carry no telemetry; matched by content elsewhere
		}
		s, ok := sent[fr.Seq]
		if !ok {
			return fmt.Sprintf("%s frame %d: TimeOn %v matches no sent frame", d.Name, i, fr.TimeOn)
		}
		if !pixEqual(fr.Pix, s.Pix) {
			return fmt.Sprintf("%s frame %d (id %d): pixels differ from the frame sent", d.Name, i, fr.Seq)
		}
		if int64(fr.LastFFC/1e6) != int64(s.LastFFCMS) {
			return fmt.Sprintf("%s frame %d (id %d): LastFFCTime %v, sent %d ms", d.Name, i, fr.Seq, fr.LastFFC, s.LastFFCMS)
		}
		if float32(fr.TempC) != float32(centiKToC(s.FPATempCK)) || float32(fr.FFCTempC) != float32(centiKToC(s.FPAFFCCK)) {
			return fmt.Sprintf("%s frame %d (id %d): temperatures %v/%v, sent %v/%v", d.Name, i, fr.Seq, fr.TempC, fr.FFCTempC, centiKToC(s.FPATempCK), centiKToC(s.FPAFFCCK))
		}
	}
	return ""
}

func TestVerif_C14Pipe(t *testing.T) {
	// also a job of C13 (bad frames through the real socket loop: rejected, nothing of them
	// stored, recording ended, processing resumes with the next frame, valid frames exact)
	prop := vEnv("VERIF_PROP", "C14")
	if prop != "C13" && prop != "C08" && prop != "C09" {
		// (C09: a 'clear' is the camera reset of the frame socket - nothing is compared across it,
		// whatever the frame before it was)
		prop = "C14"
	}
	c := vStart(t, prop, "TestVerif_C14Pipe")
	defer c.Finish()
	scratch := vEnv("VERIF_SCRATCH", t.TempDir())
	n := c.N(160, 6000)
	for idx := int64(0); idx < n; idx++ {
		if !c.Mine(idx) {
			continue
		}
		rng := c.RNG(idx)
		cam := randomCamera(rng, true)
		cfg := basicConfig()
		cfg.Constant = true
		cfg.MaxSecs = 1
		cfg.MinSecs = rng.Range(0, 1)
		cfg.PreviewSecs = rng.Range(0, 1)
		edge := rng.Range(0, 2)
		if idx%20 == 7 {
			// a Boson-sized camera with a wide border (legal there: 2*edge-pixels < 256)
			cam = bosonCamera(320, 256, rng.Range(1, 9))
			edge = rng.PickInt(60, 100, 127)
		}
		cfg.Motion = simpleMotion(rng.Range(1, 2), edge)
		fileLen := cfg.MaxSecs*cam.FPS + 1
		nf := fileLen * rng.Range(2, 30/fileLen+3)
		if cam.ResX > 100 {
			nf = fileLen * 2
		}
		o := streamOpts{Frames: nf, Clears: rng.Range(0, 5), MotionPct: rng.PickInt(20, 60, 100), ClearFirst: rng.Chance(10), ClearLast: rng.Chance(10), DoubleClr: rng.Chance(15)}
		if idx%3 == 2 {
			// rejected frames must not cost frame alignment either
			o.BadPct = rng.PickInt(2, 5, 10)
		}
		// two connections per run stall for longer than any plausible read timeout in the middle of
		// the first bytes of a frame (idx 11) or of a 'clear' marker (idx 31): a slow sender must not
		// cost alignment
		stall := idx == 11 || idx == 31
		if stall {
			cam = leptonCamera("lepton3", 16, 12, 9)
			fileLen = cfg.MaxSecs*cam.FPS + 1
			o.Frames, o.BadPct = fileLen*3, 0
			if idx == 31 {
				o.Clears, o.ClearLast = 3, true
			}
		}
		frames := genStream(rng, cam, edge, o)
		badBeforeClear := 0
		if idx%6 == 5 && !stall {
			// the last frame before every 'clear' is a rejected one (the camera restarts because of it)
			for i := 1; i < len(frames); i++ {
				if frames[i].Clear && !frames[i-1].Clear && !frames[i-1].Bad && i-1 > 0 {
					frames[i-1].Pix[edge+1][edge+1], frames[i-1].Bad = 0, true
					badBeforeClear++
				}
			}
		}
		stallAt := -1
		if stall {
			// a rejected frame just before: the camera is asked to restart, never does, keeps
			// streaming and then goes quiet for a while in mid-frame / mid-marker
			for i := len(frames) / 2; i < len(frames); i++ {
				if frames[i].Clear == (idx == 31) && !frames[i-1].Clear && !frames[i-1].Bad {
					stallAt = i
					frames[i-1].Pix[edge+1][edge+1], frames[i-1].Bad = 0, true
					break
				}
			}
		}
		cw := &chunkWriter{rng: rng, mode: rng.PickInt(0, 0, 0, 1, 2)}
		if cam.ResX > 100 && cw.mode == 1 {
			cw.mode = 0
		}
		hdr := cam.headerBytes()
		desc := func() interface{} {
			evs := ""
			for _, f := range frames {
				switch {
				case f.Clear:
					evs += "C"
				case f.Bad:
					evs += "B"
				case f.MotionAimed:
					evs += "m"
				default:
					evs += "f"
				}
			}
			return map[string]interface{}{"camera": fmt.Sprintf("%+v", cam), "header": string(hdr), "stream": evs, "chunk_mode": cw.mode,
				"config": fmt.Sprintf("min=%d max=%d preview=%d trigger=%d edge=%d", cfg.MinSecs, cfg.MaxSecs, cfg.PreviewSecs, cfg.Motion.TriggerFrames, edge)}
		}
		c.Case(idx, desc, func() {
			r, err := prepareConn(scratch, cfg, cam)
			if err != nil {
				c.Inconclusive("prepareConn: " + err.Error())
				return
			}
			defer r.cleanup()
			var hdrSeen *pCamera
			// every fifth connection: storage fails to finish the motion recording that a 'clear'
			// ends (its temporary file disappears before the rename) - the marker must still
			// restart detection and cost no frame alignment
			sabotage := idx%5 == 4 && cam.Model != "boson"
			inFrame, sabotaged := false, 0
			feed := feedStream(cam, hdr, frames, cw)
			if stall {
				feed = func(w io.Writer) error {
					if _, err := w.Write(hdr); err != nil {
						return err
					}
					stalled := false
					for i, f := range frames {
						raw := []byte("clear")
						if !f.Clear {
							raw = f.raw(cam)
						}
						if !stalled && i == stallAt {
							k := 1 + int(idx)%4
							if _, err := w.Write(raw[:k]); err != nil {
								return err
							}
							time.Sleep(5600 * time.Millisecond)
							raw = raw[k:]
							stalled = true
							c.Count("connections_stalled_inside_a_prefix", 1)
						}
						if _, err := w.Write(raw); err != nil {
							return err
						}
						cw.cuts++
					}
					return nil
				}
			}
			r.serve(feed, func(name string) {
				switch name {
				case "conn.frame.received":
					inFrame = true
				case "conn.frame.processed":
					inFrame = false
				case "rec.stop.closed":
					if sabotage && !inFrame {
						temps, _ := filepath.Glob(filepath.Join(r.OutDir, "*."+cptvTempExt))
						for _, t := range temps {
							os.Remove(t)
							sabotaged++
						}
					}
				}
				if name == "conn.header" && headerInfo != nil {
					hdrSeen = &pCamera{Brand: headerInfo.Brand(), Model: headerInfo.Model(), Firmware: headerInfo.Firmware(), Serial: uint64(headerInfo.CameraSerial()),
						ResX: headerInfo.ResX(), ResY: headerInfo.ResY(), FPS: headerInfo.FPS(), FrameSize: headerInfo.FrameSize()}
				}
			})
			if r.WriteErr != nil {
				c.Violation("stream-not-consumed", "", fmt.Sprintf("writing the stream failed after %d bytes: %v (handleConn returned %v)", cw.n, r.WriteErr, r.Err))
				return
			}
			if r.Err != io.EOF {
				c.Violation("connection-ended-abnormally", "", fmt.Sprintf("handleConn returned %v for a stream ending on a frame boundary", r.Err))
				return
			}
			if hdrSeen == nil {
				c.Violation("header-not-parsed", "", "conn.header hook never saw a parsed header")
				return
			}
			if *hdrSeen != cam {
				c.Violation("header-roundtrip", headerClass(cam, *hdrSeen), fmt.Sprintf("sent %+v, parsed %+v", cam, *hdrSeen))
				return
			}
			nFrames, nClears := 0, 0
			for _, f := range frames {
				if f.Clear {
					nClears++
				} else {
					nFrames++
				}
			}
			if got := r.Hooks.counts["conn.frame.received"]; got != nFrames {
				c.Violation("frame-count", "", fmt.Sprintf("%d frames sent, %d received by the frame loop", nFrames, got))
				return
			}
			if got := r.Hooks.counts["conn.clear"]; got != nClears {
				c.Violation("clear-count", "", fmt.Sprintf("%d clear markers sent, %d resets performed", nClears, got))
				return
			}
			sent := indexFrames(frames)
			// frames reaching storage through the continuous recorder
			cfiles := decodeDir(filepath.Join(r.OutDir, "constant-recordings"))
			want := expectContinuous(cfg, cam, frames)
			if len(cfiles) != len(want) {
				c.Violation("continuous-files", "", fmt.Sprintf("%d finished continuous files, expected %d", len(cfiles), len(want)))
				return
			}
			for i, d := range cfiles {
				if d.Err != "" {
					c.Violation("continuous-file-undecodable", "", d.Name+": "+d.Err)
					return
				}
				if cam.Model != "boson" {
					if !intsEqual(d.seqs(), want[i]) {
						c.Violation("frames-not-delivered-once-in-order", "", fmt.Sprintf("continuous file %d holds %s, expected %s", i, seqsString(d.seqs()), seqsString(want[i])))
						return
					}
					if msg := checkFileFrames(d, sent, cam); msg != "" {
						c.Violation("frame-content-misaligned", "", msg)
						return
					}
				} else {
					// boson: no telemetry; compare by content and position
					if len(d.seqs()) != len(want[i]) {
						c.Violation("frames-not-delivered-once-in-order", "boson", fmt.Sprintf("continuous file %d holds %d frames, expected %d", i, len(d.seqs()), len(want[i])))
						return
					}
					k := 0
					for _, fr := range d.Frames {
						if fr.Background {
							continue
						}
						if !pixEqual(fr.Pix, sent[want[i][k]].Pix) {
							c.Violation("frame-content-misaligned", "boson", fmt.Sprintf("continuous file %d frame %d differs from sent frame %d", i, k, want[i][k]))
							return
						}
						k++
					}
				}
				c.Count("frames_verified_in_storage", int64(len(want[i])))
			}
			// motion recordings: boundaries as the reference pipeline predicts (clear ends the recording, detection restarts)
			mfiles := decodeDir(r.OutDir)
			exp, _ := expectRecordings(cfg, cam, frames)
			var expDone []expRecording
			for _, e := range exp {
				if sabotage && e.EndedBy == "clear" {
					continue // its file was taken away before it could be finished
				}
				if !e.Open {
					expDone = append(expDone, e)
				}
			}
			c.Count("clears_with_failing_stop", int64(sabotaged))
			if cam.Model != "boson" {
				if len(mfiles) != len(expDone) {
					c.Violation("motion-recordings-differ", "", fmt.Sprintf("%d motion files, reference pipeline predicts %d: %s", len(mfiles), len(expDone), describeRecs(exp)))
					return
				}
				for i, d := range mfiles {
					if d.Err != "" {
						c.Violation("motion-file-undecodable", "", d.Name+": "+d.Err)
						return
					}
					if !intsEqual(d.seqs(), expDone[i].Seqs) {
						c.Violation("motion-recordings-differ", "ended by "+expDone[i].EndedBy, fmt.Sprintf("motion file %d holds %s, reference pipeline predicts %s (ended by %s)", i, seqsString(d.seqs()), seqsString(expDone[i].Seqs), expDone[i].EndedBy))
						return
					}
					if expDone[i].EndedBy == "clear" {
						c.Count("recordings_ended_by_clear", 1)
					}
				}
			}
			c.Count("connections", 1)
			c.Count("frames_sent", int64(nFrames))
			c.Count("clear_markers", int64(nClears))
			c.Count("clears_right_after_a_rejected_frame", int64(badBeforeClear))
			for _, f := range frames {
				if f.Bad {
					c.Count("bad_frames_in_streams", 1)
				}
			}
			c.Count("socket_writes", cw.cuts)
			for _, f := range frames {
				if f.MarkerLike {
					c.Count("frames_starting_like_the_marker", 1)
				}
				if f.WideBorderZero {
					c.Count("valid_frames_with_zeros_deep_in_a_wide_border", 1)
				}
			}
			c.Count("motion_files", int64(len(mfiles)))
			c.Seen("chunk_modes", fmt.Sprint(cw.mode))
			c.Seen("cameras", fmt.Sprintf("%s %dx%d", cam.Model, cam.ResX, cam.ResY))
			c.Nontrivial(vNewHash().U64(uint64(idx)).Int(nFrames).Int(nClears).Int(int(cw.cuts)).Sum())
			c.Sample("connection", func() interface{} {
				return map[string]interface{}{"camera": fmt.Sprintf("%s %dx%d@%d", cam.Model, cam.ResX, cam.ResY, cam.FPS), "frames": nFrames, "clears": nClears, "socket_writes": cw.cuts,
					"continuous_files": len(cfiles), "motion_files": len(mfiles)}
			})
		})
	}
}

// TestVerif_C14Agree reports the constants cmd/thermal-recorder is compiled
// with; the driver compares them with cmd/leptond's (see harness/leptond-main).
func TestVerif_C14Agree(t *testing.T) {
	c := vStart(t, "C14", "TestVerif_C14Agree")
	defer c.Finish()
	if c.Shard != 0 {
		return
	}
	c.Case(0, func() interface{} { return "constants compiled into cmd/thermal-recorder" }, func() {
		keys := []string{headers.XResolution, headers.YResolution, headers.FrameSize, headers.Model, headers.Brand, headers.FPS, headers.Serial, headers.Firmware}
		sort.Strings(keys)
		c.Note("agree:clear_marker", clearBuffer)
		c.Note("agree:header_keys", strings.Join(keys, ","))
		c.Note("agree:lepton_frame_bytes", leptonTelemetryBytes+2*160*120)
		c.Count("constant_sets_reported", 1)
		c.Nontrivial(vNewHash().Str(clearBuffer).Str(strings.Join(keys, ",")).Int(1).Sum())
	})
}

func headerClass(sent, got pCamera) string {
	if sent.Serial != got.Serial {
		if sent.Serial > uint64(^uint(0)>>1) {
			return "field CameraSerial; value does not fit Go int"
		}
		return "field CameraSerial"
	}
	if sent.Firmware != got.Firmware {
		return "field Firmware"
	}
	return "other field"
}

// pickSerial picks one of the serial numbers; values that do not fit the platform's int
// (32-bit builds) are the known CameraSerial finding of the header job and are replaced here.
func pickSerial(rng *vRNG, xs ...uint64) uint64 {
	v := xs[rng.Intn(len(xs))]
	if v > uint64(^uint(0)>>1) {
		v = uint64(^uint(0) >> 1)
	}
	return v
}
