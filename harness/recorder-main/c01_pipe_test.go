//go:build verif
// +build verif

package main

// C01 / C02 through main.go's wiring: the real handleConn, the real file recorders, the
// throttle as wired, test-recording requests through the service path. The files in the
// output directory are decoded and judged against the reference prediction of the motion
// recordings (fixed threshold, so the prediction is exact):
//   unthrottled: the motion files ARE the predicted recordings (content, order, tiling, first frame);
//   throttled:   every motion file is a run of consecutive frames inside one predicted recording,
//                no frame is in two files, and a file that starts a recording starts at its
//                predicted first frame and holds its trigger frame.
// Test recordings (21 consecutive frames from the request on) are set aside first.

import (
	"fmt"
	"io"
	"strings"
	"sync/atomic"
	"testing"
	"time"
)

func TestVerif_C01Pipe(t *testing.T) {
	prop := vEnv("VERIF_PROP", "C01")
	if prop != "C02" && prop != "C11" && prop != "C03" {
		prop = "C01"
	}
	// as a job of C11 (the settings in config.toml shape the files) and of C03 (the length of every
	// stored recording, down to the trigger frame alone) every aspect counts
	asC01, asC02 := prop != "C02", prop != "C01"
	c := vStart(t, prop, "TestVerif_C01Pipe")
	defer c.Finish()
	scratch := vEnv("VERIF_SCRATCH", t.TempDir())
	n := c.N(24, 400)
	for idx := int64(0); idx < n; idx++ {
		if !c.Mine(idx) {
			continue
		}
		rng := c.RNG(idx)
		fps := rng.PickInt(3, 5, 9)
		cam := leptonCamera("lepton3", 16, 12, fps)
		cfg := basicConfig()
		throttled := idx%3 == 2
		cfg.MinSecs, cfg.PreviewSecs = rng.Range(1, 2), rng.Range(0, 3)
		cfg.MaxSecs = cfg.MinSecs + rng.Range(0, 4)
		trig := rng.Range(1, 2)
		if cfg.PreviewSecs == 0 && trig < 1 {
			trig = 1
		}
		cfg.Motion = simpleMotion(trig, 1)
		cfg.Constant = idx%4 == 1
		nf := rng.Range(25, 60) * fps
		var frames []*pFrame
		if throttled {
			// a preview at least as long as the minimum recording, a bucket that earlier
			// recordings drain, triggers arriving while little budget is left
			cfg.MinSecs, cfg.PreviewSecs, cfg.MaxSecs = 1, rng.Range(1, 3), rng.Range(2, 6)
			cfg.Throttle, cfg.BucketSize, cfg.MinRefill = true, fmt.Sprintf("%ds", cfg.MinSecs+cfg.PreviewSecs+rng.Range(0, 4)), rng.PickStr("1h", "20s", "3s")
			frames = burstStream(rng, cam, nf, false)
			if idx%2 == 0 {
				// crafted: single blips, each recording costs L frames, no refill; the bucket is sized so
				// that after some of them the budget left lies between min-secs*fps and the length of the
				// pre-trigger burst - enough for a minimum recording's worth of tokens counted without the
				// preview, not enough for a file that reaches its trigger frame
				cfg.MinSecs, cfg.PreviewSecs, cfg.MaxSecs, cfg.MinRefill = 1, rng.Range(2, 3), 3, "1h"
				capF := cfg.PreviewSecs*fps + trig
				L := capF - 1 + cfg.MinSecs*fps
				found := false
				for bs := cfg.MinSecs + cfg.PreviewSecs; bs <= 60 && !found; bs++ {
					for k := 1; k <= 6; k++ {
						if left := bs*fps - k*L; left >= cfg.MinSecs*fps && left < capF-1 {
							cfg.BucketSize = fmt.Sprintf("%ds", bs)
							pat := ""
							for b := 0; b < k+3; b++ {
								pat += strings.Repeat("f", cfg.MaxSecs*fps+2*capF+5) + strings.Repeat("m", trig)
							}
							pat += strings.Repeat("f", cfg.MaxSecs*fps+capF+5)
							frames = c10Frames(cam, pat)
							found = true
							break
						}
					}
				}
			}
		} else {
			frames = genStream(rng, cam, 1, streamOpts{Frames: nf, MotionPct: rng.PickInt(30, 60, 100), Clears: rng.PickInt(0, 0, 1)})
		}
		if idx%6 == 1 {
			// config.toml leaves the three recording lengths to their defaults (another connection of
			// this process was configured otherwise a moment ago)
			cfg.MinSecs, cfg.MaxSecs, cfg.PreviewSecs, cfg.OmitTimes = 10, 600, 5, true
		}
		shortest := idx%6 == 3
		if shortest {
			// the shortest recordings there are: min-secs 0, no preview, trigger-frames 1 - a lone
			// motion frame is a recording of that one frame; sustained motion makes recordings that
			// follow each other without a frame between them
			cfg.MinSecs, cfg.PreviewSecs, cfg.MaxSecs = 0, 0, int(idx/6)%3
			cfg.Motion = simpleMotion(1, 1)
			frames = c10Frames(cam, "ffffmfffffmfmffffmmmmmmmmmmmmmmmmmmmmmmmmmfffffmffff"+strings.Repeat("fffmffmmff", 4))
		}
		nFrames := 0
		for _, f := range frames {
			if !f.Clear {
				nFrames++
			}
		}
		reqs := []int{}
		if idx%2 == 0 && nFrames > 60 {
			a := rng.Range(2, nFrames/2)
			reqs = append(reqs, a, a+21+rng.Range(0, 15))
		}
		c.Case(idx, func() interface{} {
			return map[string]interface{}{"fps": fps, "min/max/preview": fmt.Sprintf("%d/%d/%d", cfg.MinSecs, cfg.MaxSecs, cfg.PreviewSecs), "trigger_frames": trig, "frames": nFrames,
				"throttle": fmt.Sprintf("%v bucket=%s refill=%s", cfg.Throttle, cfg.BucketSize, cfg.MinRefill), "continuous_recorder": cfg.Constant, "test_recording_requests_before_frames": reqs}
		}, func() {
			r, err := prepareConn(scratch, cfg, cam)
			if err != nil {
				c.Inconclusive("prepareConn: " + err.Error())
				return
			}
			defer r.cleanup()
			var rx int64
			pace := time.Duration(0)
			if throttled {
				pace = time.Millisecond
			}
			r.serve(pacedFeed(cam, frames, pace), func(name string) {
				if name == "conn.frame.received" {
					k := int(atomic.AddInt64(&rx, 1)) - 1
					for _, q := range reqs {
						if k == q {
							newSnapshotRecording()
						}
					}
				}
			})
			if r.Err != io.EOF {
				c.Violation("pipeline-failed", "", fmt.Sprintf("handleConn returned %v", r.Err))
				return
			}
			files := decodeDir(r.OutDir)
			// set the test recordings aside
			var mfiles []*decFile
			taken := map[int]bool{}
			for _, d := range files {
				if d.Err != "" {
					c.Violation("file-undecodable", "", d.Name+": "+d.Err)
					return
				}
				sq := d.seqs()
				isTest := false
				for _, q := range reqs {
					if !taken[q] && len(sq) == 21 && sq[0] == q && sq[20] == q+20 {
						ok := true
						for k := 1; k < 21; k++ {
							ok = ok && sq[k] == sq[k-1]+1
						}
						if ok {
							isTest, taken[q] = true, true
						}
					}
				}
				if !isTest {
					mfiles = append(mfiles, d)
				}
			}
			if shortest {
				c.Count("connections_with_single_frame_recordings", 1)
			}
			if cfg.OmitTimes {
				c.Count("connections_with_default_recording_lengths", 1)
			}
			exp, _ := expectRecordings(cfg, cam, frames)
			var expDone []expRecording
			for _, e := range exp {
				if !e.Open {
					expDone = append(expDone, e)
				}
			}
			seen := map[int]string{}
			for _, d := range mfiles {
				sq := d.seqs()
				for k, s := range sq {
					if k > 0 && s != sq[k-1]+1 {
						if asC01 {
							c.Violation("gap-or-disorder", "main.go wiring", fmt.Sprintf("%s holds %s: frame %d follows frame %d", d.Name, seqsString(sq), s, sq[k-1]))
						}
						return
					}
					if other, dup := seen[s]; dup {
						if asC01 {
							c.Violation("frame-written-twice", "main.go wiring", fmt.Sprintf("frame %d is in %s and in %s (%s)", s, other, d.Name, seqsString(sq)))
						}
						return
					}
					seen[s] = d.Name
				}
			}
			if !throttled {
				if len(mfiles) != len(expDone) {
					c.Violation("recordings-differ", "main.go wiring", fmt.Sprintf("%d motion files, reference pipeline predicts %d: %s; files: %s", len(mfiles), len(expDone), describeRecs(exp), filesString(mfiles)))
					return
				}
				for i, d := range mfiles {
					sq := d.seqs()
					if intsEqual(sq, expDone[i].Seqs) {
						continue
					}
					kind := "tiling"
					if len(sq) > 0 && len(expDone[i].Seqs) > 0 && sq[0] != expDone[i].Seqs[0] {
						kind = "wrong-first-frame"
					}
					if asC01 || asC02 {
						c.Violation(kind, "main.go wiring", fmt.Sprintf("motion file %d holds %s, reference pipeline predicts %s (trigger %d)", i, seqsString(sq), seqsString(expDone[i].Seqs), expDone[i].Trigger))
					}
					return
				}
			} else {
				for _, d := range mfiles {
					sq := d.seqs()
					if len(sq) == 0 {
						continue
					}
					var host *expRecording
					for k := range exp {
						e := &exp[k]
						if len(e.Seqs) > 0 && sq[0] >= e.Seqs[0] && sq[0] <= e.Seqs[len(e.Seqs)-1] {
							host = e
						}
					}
					if host == nil || sq[len(sq)-1] > host.Seqs[len(host.Seqs)-1] {
						if asC01 {
							c.Violation("file-not-inside-one-recording", "main.go wiring, throttled", fmt.Sprintf("%s holds %s, which is not inside one of the processor's recordings %s", d.Name, seqsString(sq), describeRecs(exp)))
						}
						return
					}
					if sq[0] == host.Seqs[0] && sq[len(sq)-1] < host.Trigger {
						if asC02 {
							c.Violation("trigger-frame-not-written", "main.go wiring, throttled", fmt.Sprintf("%s holds %s: it starts the recording triggered at frame %d but ends before that frame (pre-trigger frames without the trigger frame)", d.Name, seqsString(sq), host.Trigger))
						}
						return
					}
					if sq[0] != host.Seqs[0] && sq[0] <= host.Trigger {
						if asC02 {
							c.Violation("wrong-first-frame", "main.go wiring, throttled", fmt.Sprintf("%s starts at frame %d inside the pre-trigger part of the recording %s (trigger %d): a file holding pre-trigger frames starts with the first of them", d.Name, sq[0], seqsString(host.Seqs), host.Trigger))
						}
						return
					}
				}
				c.Count("throttled_connections", 1)
			}
			c.Count("pipeline_connections", 1)
			c.Count("motion_files", int64(len(mfiles)))
			c.Count("test_recordings_set_aside", int64(len(taken)))
			overlap := 0
			for q := range taken {
				for _, e := range exp {
					if len(e.Seqs) > 0 && q <= e.Seqs[len(e.Seqs)-1] && q+20 >= e.Seqs[0] {
						overlap++
						break
					}
				}
			}
			c.Count("test_recordings_overlapping_a_motion_recording", int64(overlap))
			if len(mfiles) > 0 {
				c.Nontrivial(vNewHash().U64(uint64(idx)).Int(len(mfiles)).Int(len(taken)).Sum())
			}
		})
	}
}

func filesString(fs []*decFile) string {
	s := ""
	for _, d := range fs {
		s += "[" + seqsString(d.seqs()) + "] "
	}
	return s
}
