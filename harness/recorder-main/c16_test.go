//go:build verif
// +build verif

package main

// C16 - snapshots taken concurrently with processing are whole frames; the
// request paths are free of data races with the frame loop.
// (a) Go race detector (reports parsed by the driver);
// (b) interval check on an event log stamped from one atomic logical clock:
//     request call/return at the client boundary, "frame k received/processed"
//     at the handleConn hooks; frames are uniform-valued, value = f(id);
// (c) recordings equal the reference pipeline's prediction despite requests.

import (
	"fmt"
	"io"
	"path/filepath"
	"runtime"

	"github.com/TheCacophonyProject/go-cptv/cptvframe"
	"sync"
	"sync/atomic"
	"testing"
	"time"
)

func uniformValue(seq int) uint16 { return uint16(1000 + (seq*37)%60000) }

// seqOfUniform inverts uniformValue exactly (37 is invertible modulo 60000 and
// every run uses fewer than 60000 frames). A request can be descheduled for
// thousands of frames, so no search window around the call time is assumed.
func seqOfUniform(v uint16) int {
	if v < 1000 || int(v) >= 61000 {
		return -1
	}
	inv := 0
	for k := 1; k < 60000; k++ {
		if (k*37)%60000 == 1 {
			inv = k
			break
		}
	}
	return ((int(v) - 1000) * inv) % 60000
}

type c16Log struct {
	clock     int64
	lastRecv  int64 // id of last frame fully received (global ids)
	lastProc  int64 // id of last frame whose processing completed
	connFirst int64 // first id of the current connection
	connProc  int64 // frames processed on the current connection
	inFrame   int32 // 1 between "received" and "processed"
	published int32 // processor of the current connection published
}

type c16Req struct {
	Kind                string
	CallClock, RetClock int64
	ProcAtCall          int64
	ConnProcAtCall      int64
	ConnFirstAtCall     int64
	RecvAtRet           int64
	ConnFirstAtRet      int64
	Phase               string
	GotFrame            bool
	ErrText             string
	Value               uint16
	Uniform             bool
	FrameCount          int
	AllZero             bool
}

func TestVerif_C16(t *testing.T) {
	c := vStart(t, "C16", "TestVerif_C16")
	defer c.Finish()
	scratch := vEnv("VERIF_SCRATCH", t.TempDir())
	reps := c.N(6, 64)
	for idx := int64(0); idx < reps; idx++ {
		if !c.Mine(idx) {
			continue
		}
		rng := c.RNG(idx)
		nConn := rng.Range(2, 5)
		framesPerConn := int(c.N(500, 3000))
		nReq := rng.Range(1, 8)
		cam := leptonCamera("lepton3", 16, 12, 9)
		cfg := basicConfig()
		cfg.Constant = true
		cfg.MinSecs, cfg.MaxSecs, cfg.PreviewSecs = 1, 2, 1
		cfg.Motion = simpleMotion(2, 1)
		if idx%2 == 1 {
			// the smallest frame ring the daemon can have (preview-secs 0, trigger-frames 2: two
			// slots): the slot a snapshot is taken from is the one refilled next but one
			cfg.PreviewSecs = 0
		}
		feedMode := rng.Intn(3) // 0 full speed, 1 bursts, 2 paced
		hookYield := rng.Intn(3)
		c.Case(idx, func() interface{} {
			return map[string]interface{}{"connections": nConn, "frames_per_connection": framesPerConn, "requesters": nReq, "feed_mode": feedMode, "hook_yield": hookYield, "GOMAXPROCS": runtime.GOMAXPROCS(0)}
		}, func() {
			// start like a fresh daemon: no processor / header left over from the previous case
			// (otherwise the first requests legitimately return that case's last frame)
			mu.Lock()
			processor, headerInfo = nil, nil
			mu.Unlock()
			// deterministic reconnect probe (no free-running requesters yet): one request right after
			// frame N of a connection, a reconnect, one request right after frame N of the next
			// connection - the second must return ITS connection's frame N
			for n := 1; n <= 4; n++ {
				var got [2]int
				var want [2]int
				for k := 0; k < 2; k++ {
					rp, err := prepareConn(scratch, cfg, cam)
					if err != nil {
						c.Inconclusive("prepareConn: " + err.Error())
						return
					}
					pframes := []*pFrame{}
					for i := 0; i < 6; i++ {
						pframes = append(pframes, &pFrame{Seq: 40000 + 100*n + 10*k + i, TimeOnMS: timeOnFor(40000 + 100*n + 10*k + i), FPATempCK: 30000, FPAFFCCK: 30000,
							Pix: newPix(cam.ResX, cam.ResY, uniformValue(40000+100*n+10*k+i))})
					}
					want[k] = pframes[n-1].Seq
					got[k] = -1
					processed := 0
					rp.serve(pacedFeed(cam, pframes, 0), func(name string) {
						if name != "conn.frame.processed" {
							return
						}
						processed++
						if processed == n {
							done := make(chan struct{})
							go func() {
								defer close(done)
								if f, derr := (&service{}).TakeSnapshot(-1); derr == nil && f != nil {
									got[k] = seqOfUniform(f.Pix[0][0])
								}
							}()
							<-done
						}
					})
					rp.cleanup()
				}
				for k := 0; k < 2; k++ {
					if got[k] != want[k] {
						c.Violation("snapshot-stale", "reconnect probe", fmt.Sprintf("request right after frame %d of connection %d returned frame %d, expected frame %d (connection 0 was served frame %d at the same frame count)", n, k, got[k], want[k], got[0]))
						return
					}
				}
				c.Count("reconnect_probes", 1)
			}
			// outage probe: the connection has ended (no frames flow) but the daemon lives on; the
			// service keeps answering test-recording and snapshot requests, and the next connection
			// is served as usual. A request path that waits for the frame loop would wedge the
			// service mutex here.
			{
				nreq := 2 + int(idx%3)
				outage := make(chan string, 1)
				go func() {
					for i := 0; i < nreq; i++ {
						(&service{}).TakeTestRecording()
						(&service{}).TakeSnapshot(-1)
					}
					outage <- ""
				}()
				select {
				case <-outage:
				case <-time.After(60 * time.Second):
					c.Violation("request-stalls-pipeline", "requests during an outage", fmt.Sprintf("%d test-recording requests issued after the camera connection had ended did not all return within 60 s", nreq))
					c.Abort()
				}
				rp, err := prepareConn(scratch, cfg, cam)
				if err != nil {
					c.Inconclusive("prepareConn: " + err.Error())
					return
				}
				pframes := []*pFrame{}
				for i := 0; i < 6; i++ {
					pframes = append(pframes, &pFrame{Seq: 45000 + i, TimeOnMS: timeOnFor(45000 + i), FPATempCK: 30000, FPAFFCCK: 30000, Pix: newPix(cam.ResX, cam.ResY, uniformValue(45000+i))})
				}
				var processed int64
				served := make(chan struct{})
				go func() {
					defer close(served)
					rp.serve(pacedFeed(cam, pframes, 0), func(name string) {
						if name == "conn.frame.processed" {
							atomic.AddInt64(&processed, 1)
						}
					})
				}()
				select {
				case <-served:
				case <-time.After(60 * time.Second):
					c.Violation("request-stalls-pipeline", "reconnect after requests during an outage", fmt.Sprintf("after %d test-recording requests during an outage the next connection processed %d of 6 frames in 60 s", nreq, atomic.LoadInt64(&processed)))
					c.Abort()
				}
				if n := atomic.LoadInt64(&processed); n != 6 {
					c.Violation("request-stalls-pipeline", "reconnect after requests during an outage", fmt.Sprintf("the connection after the outage processed %d of 6 frames (handleConn returned %v)", n, rp.Err))
					return
				}
				rp.cleanup()
				c.Count("outage_probes", 1)
				c.Count("requests_during_outage", int64(2*nreq))
			}
			// a test recording requested through the service, a bad frame while it runs, more
			// frames and more requests: the pipeline goes on (no panic, every frame processed)
			{
				rp, err := prepareConn(scratch, cfg, cam)
				if err != nil {
					c.Inconclusive("prepareConn: " + err.Error())
					return
				}
				reqAt, badAt := 2+int(idx%4), 6+int(idx%13)
				pframes := []*pFrame{}
				for i := 0; i < 45; i++ {
					pf := &pFrame{Seq: 47000 + i, TimeOnMS: timeOnFor(47000 + i), FPATempCK: 30000, FPAFFCCK: 30000, Pix: newPix(cam.ResX, cam.ResY, uniformValue(47000+i))}
					if i == badAt {
						pf.Pix[5][5] = 0
					}
					pframes = append(pframes, pf)
				}
				var processed, received int64
				rp.serve(pacedFeed(cam, pframes, 0), func(name string) {
					switch name {
					case "conn.frame.received":
						k := atomic.AddInt64(&received, 1)
						if int(k) == reqAt || int(k) == badAt+3 || int(k) == 40 {
							(&service{}).TakeTestRecording()
						}
					case "conn.frame.processed":
						atomic.AddInt64(&processed, 1)
					}
				})
				if rp.Err != io.EOF || atomic.LoadInt64(&processed) != 45 {
					c.Violation("request-stalls-pipeline", "test recording across a bad frame", fmt.Sprintf("test recording requested before frame %d, bad frame %d: handleConn returned %v after processing %d of 45 frames", reqAt, badAt, rp.Err, atomic.LoadInt64(&processed)))
					return
				}
				rp.cleanup()
				c.Count("test_recordings_across_a_bad_frame", 1)
			}
			// connection churn: many very short connections (each publishes a header and a processor
			// under the service mutex) while requesters call the service in a tight loop. Whatever
			// the interleaving of a request with a publication, every connection is served.
			{
				rp, err := prepareConn(scratch, cfg, cam)
				if err != nil {
					c.Inconclusive("prepareConn: " + err.Error())
					return
				}
				stopReq := make(chan struct{})
				var reqWG sync.WaitGroup
				var nreq int64
				for g := 0; g < 4; g++ {
					reqWG.Add(1)
					go func(g int) {
						defer reqWG.Done()
						for {
							select {
							case <-stopReq:
								return
							default:
							}
							if g%2 == 0 {
								(&service{}).TakeTestRecording()
							} else {
								(&service{}).TakeSnapshot(-1)
							}
							atomic.AddInt64(&nreq, 1)
							runtime.Gosched()
						}
					}(g)
				}
				churn := int(c.N(120, 600))
				var served int64
				done := make(chan error, 1)
				go func() {
					for i := 0; i < churn; i++ {
						pframes := []*pFrame{}
						for k := 0; k < 3; k++ {
							pframes = append(pframes, &pFrame{Seq: 48000 + 10*i + k, TimeOnMS: timeOnFor(48000 + 10*i + k), FPATempCK: 30000, FPAFFCCK: 30000, Pix: newPix(cam.ResX, cam.ResY, uniformValue(48000+10*i+k))})
						}
						rp.serve(pacedFeed(cam, pframes, 0), nil)
						if rp.Err != io.EOF {
							done <- fmt.Errorf("connection %d: handleConn returned %v", i, rp.Err)
							return
						}
						atomic.AddInt64(&served, 1)
					}
					done <- nil
				}()
				select {
				case err := <-done:
					close(stopReq)
					if err != nil {
						c.Violation("request-stalls-pipeline", "requests during connection churn", err.Error())
						return
					}
				case <-time.After(120 * time.Second):
					c.Violation("request-stalls-pipeline", "requests during connection churn", fmt.Sprintf("%d of %d short connections were served in 120 s while 4 requesters called TakeTestRecording / TakeSnapshot (%d calls returned): a request and the publication of a new connection block each other", atomic.LoadInt64(&served), churn, atomic.LoadInt64(&nreq)))
					c.Abort()
				}
				reqWG.Wait()
				rp.cleanup()
				c.Count("churn_connections", int64(churn))
				c.Count("requests_during_churn", atomic.LoadInt64(&nreq))
			}
			mu.Lock()
			processor, headerInfo = nil, nil
			mu.Unlock()
			lg := &c16Log{}
			var reqMu sync.Mutex
			var reqs []c16Req
			testFound := 0
			stop := make(chan struct{})
			var wg sync.WaitGroup
			svc := &service{}
			handshake := make(chan chan struct{}, 1)
			// a returned image is an exact COPY: it must never change after it has been handed out.
			// Each requester keeps its previous image and re-checks it after its next request.
			type held struct {
				f     *cptvframe.Frame
				value uint16
				count int
			}
			var heldMu sync.Mutex
			heldBy := map[int64]*held{}
			recheck := func(gid int64, f *cptvframe.Frame, uniform bool, value uint16) {
				heldMu.Lock()
				prev := heldBy[gid]
				if f != nil && uniform {
					heldBy[gid] = &held{f: f, value: value, count: f.Status.FrameCount}
				}
				heldMu.Unlock()
				if prev == nil {
					return
				}
				for y := range prev.f.Pix {
					for x := range prev.f.Pix[y] {
						if prev.f.Pix[y][x] != prev.value {
							c.Violation("snapshot-changed-after-return", "", fmt.Sprintf("an image returned earlier (uniform value %d, frame %d) changed afterwards: pixel (%d,%d) is now %d - the reply aliases a buffer that is still written", prev.value, prev.count, y, x, prev.f.Pix[y][x]))
							return
						}
					}
				}
				if prev.f.Status.FrameCount != prev.count {
					c.Violation("snapshot-changed-after-return", "", fmt.Sprintf("the frame counter of an image returned earlier changed from %d to %d", prev.count, prev.f.Status.FrameCount))
					return
				}
				c.Count("held_snapshots_rechecked", 1)
			}
			doSnapshotG := func(gid int64, kind string, lastFrame int) {
				r := c16Req{Kind: kind}
				r.CallClock = atomic.AddInt64(&lg.clock, 1)
				r.ProcAtCall = atomic.LoadInt64(&lg.lastProc)
				r.ConnProcAtCall = atomic.LoadInt64(&lg.connProc)
				r.ConnFirstAtCall = atomic.LoadInt64(&lg.connFirst)
				if atomic.LoadInt32(&lg.inFrame) == 1 {
					r.Phase = "processing"
				} else if atomic.LoadInt32(&lg.published) == 1 && r.ConnProcAtCall == 0 {
					r.Phase = "published-before-first-frame"
				} else {
					r.Phase = "between-frames"
				}
				switch kind {
				case "TakeSnapshot":
					f, derr := svc.TakeSnapshot(lastFrame)
					if derr != nil {
						r.ErrText = fmt.Sprint(derr.Body...)
					} else if f != nil {
						r.GotFrame = true
						r.Value = f.Pix[0][0]
						r.Uniform, r.AllZero = true, true
						for y := range f.Pix {
							for x := range f.Pix[y] {
								if f.Pix[y][x] != r.Value {
									r.Uniform = false
								}
								if f.Pix[y][x] != 0 {
									r.AllZero = false
								}
							}
						}
						r.FrameCount = f.Status.FrameCount
						recheck(gid, f, r.Uniform && !r.AllZero, r.Value)
					}
				case "TakeTestRecording":
					if derr := svc.TakeTestRecording(); derr != nil {
						r.ErrText = fmt.Sprint(derr.Body...)
					}
				case "CameraInfo":
					m, derr := svc.CameraInfo()
					if derr != nil {
						r.ErrText = derr.Name
					} else if m["Model"] != cam.Model || m["ResX"] != cam.ResX || m["FrameSize"] != cam.FrameSize {
						r.ErrText = fmt.Sprintf("INCONSISTENT %v", m)
					}
				}
				r.RecvAtRet = atomic.LoadInt64(&lg.lastRecv)
				r.ConnFirstAtRet = atomic.LoadInt64(&lg.connFirst)
				r.RetClock = atomic.AddInt64(&lg.clock, 1)
				reqMu.Lock()
				reqs = append(reqs, r)
				reqMu.Unlock()
			}
			doSnapshot := func(kind string, lastFrame int) { doSnapshotG(-1, kind, lastFrame) }
			for g := 0; g < nReq; g++ {
				wg.Add(1)
				grng := vNewRNG(rng.U64(), uint64(g))
				go func(g int) {
					defer wg.Done()
					last := -1
					for {
						select {
						case <-stop:
							return
						case done := <-handshake:
							doSnapshot("TakeSnapshot", -1)
							close(done)
							continue
						default:
						}
						switch grng.Intn(10) {
						case 0:
							doSnapshot("TakeTestRecording", 0)
						case 1, 2:
							doSnapshot("CameraInfo", 0)
						default:
							lf := -1
							if grng.Chance(30) {
								lf = last
							}
							doSnapshotG(int64(g), "TakeSnapshot", lf)
						}
						switch grng.Intn(4) {
						case 0:
							runtime.Gosched()
						case 1:
							time.Sleep(time.Duration(grng.Intn(300)) * time.Microsecond)
						case 2:
							time.Sleep(time.Duration(grng.Intn(3)) * time.Millisecond)
						}
					}
				}(g)
			}
			var allFrames [][]*pFrame
			var runs []*connRun
			seq := 1
			hrng := vNewRNG(rng.U64())
			var hmu sync.Mutex
			for cn := 0; cn < nConn; cn++ {
				frames := make([]*pFrame, 0, framesPerConn)
				for i := 0; i < framesPerConn; i++ {
					f := &pFrame{Seq: seq, TimeOnMS: timeOnFor(seq), FPATempCK: 30000, FPAFFCCK: 30000, Pix: newPix(cam.ResX, cam.ResY, uniformValue(seq))}
					// every frame differs from its predecessor by more than delta: continuous motion
					frames = append(frames, f)
					seq++
					// camera resets: a snapshot right after a 'clear' must still show the last completed frame
					if i > 0 && rng.Intn(framesPerConn) < 4 {
						frames = append(frames, &pFrame{Clear: true, Seq: -1})
					}
				}
				badFirst := rng.Chance(50)
				if badFirst {
					// the very first frame of the connection is rejected: there is still no frame to show
					frames[0].Pix[5][5] = 0
					frames[0].Bad = true
					c.Count("connections_starting_with_a_bad_frame", 1)
				}
				allFrames = append(allFrames, frames)
				r, err := prepareConn(scratch, cfg, cam)
				if err != nil {
					c.Inconclusive("prepareConn: " + err.Error())
					close(stop)
					wg.Wait()
					return
				}
				runs = append(runs, r)
				first := int64(frames[0].Seq)
				nClears := 0
				for _, f := range frames {
					if f.Clear {
						nClears++
					}
				}
				c.Count("clear_markers", int64(nClears))
				cur := first - 1
				hook := func(name string) {
					switch name {
					case "conn.processor":
						// the new processor has just been published: from now on requests are
						// served from this connection's (still empty) ring
						atomic.StoreInt64(&lg.connProc, 0)
						atomic.StoreInt64(&lg.connFirst, first)
						atomic.StoreInt32(&lg.published, 1)
						atomic.AddInt64(&lg.clock, 1)
						// a request served exactly between publication and the first frame
						done := make(chan struct{})
						select {
						case handshake <- done:
							select {
							case <-done:
							case <-time.After(5 * time.Second):
							}
						default:
						}
					case "conn.clear":
						atomic.AddInt64(&lg.clock, 1)
						// a request served right after the reset, before the next frame
						done := make(chan struct{})
						select {
						case handshake <- done:
							select {
							case <-done:
							case <-time.After(5 * time.Second):
							}
						default:
						}
					case "conn.frame.received":
						cur++
						atomic.StoreInt64(&lg.lastRecv, cur)
						atomic.StoreInt32(&lg.inFrame, 1)
						atomic.AddInt64(&lg.clock, 1)
					case "conn.frame.processed":
						if badFirst && cur == first {
							// rejected first frame: nothing has completed on this connection yet
							atomic.StoreInt32(&lg.inFrame, 0)
							atomic.AddInt64(&lg.clock, 1)
							done := make(chan struct{})
							select {
							case handshake <- done:
								select {
								case <-done:
								case <-time.After(5 * time.Second):
								}
							default:
							}
							break
						}
						atomic.StoreInt64(&lg.lastProc, cur)
						atomic.AddInt64(&lg.connProc, 1)
						atomic.StoreInt32(&lg.inFrame, 0)
						atomic.AddInt64(&lg.clock, 1)
					default:
						return
					}
					hmu.Lock()
					y := hrng.Intn(20)
					hmu.Unlock()
					switch {
					case hookYield == 1 && y < 6:
						runtime.Gosched()
					case hookYield == 2 && y < 3:
						time.Sleep(time.Duration(y*20) * time.Microsecond)
					}
				}
				hdr := cam.headerBytes()
				cw := &chunkWriter{rng: vNewRNG(rng.U64()), mode: 2}
				feed := func(w io.Writer) error {
					cw.w = w
					if err := cw.Write(hdr); err != nil {
						return err
					}
					for i, f := range frames {
						if f.Clear {
							if err := cw.Write([]byte("clear")); err != nil {
								return err
							}
							continue
						}
						if err := cw.Write(f.raw(cam)); err != nil {
							return err
						}
						switch feedMode {
						case 1:
							if i%50 == 49 {
								time.Sleep(3 * time.Millisecond)
							}
						case 2:
							if i%4 == 0 {
								time.Sleep(200 * time.Microsecond)
							}
						}
					}
					return nil
				}
				r.serve(feed, hook)
				if r.Err != io.EOF {
					c.Violation("frame-loop-disturbed", "", fmt.Sprintf("connection %d: handleConn returned %v (write error %v)", cn, r.Err, r.WriteErr))
				}
				if got := r.Hooks.counts["conn.frame.processed"]; got != framesPerConn { // (bad frames pass the hook too)
					c.Violation("frame-loop-stalled", "", fmt.Sprintf("connection %d: %d of %d frames processed", cn, got, framesPerConn))
				}
			}
			close(stop)
			wg.Wait()
			// ---- (b) interval oracle over the request log
			for _, r := range reqs {
				c.Count("requests_"+r.Kind, 1)
				c.Seen("request_phase", r.Kind+"@"+r.Phase)
				if r.Kind == "CameraInfo" && len(r.ErrText) > 12 && r.ErrText[:12] == "INCONSISTENT" {
					c.Violation("camera-info-inconsistent", "", r.ErrText)
				}
				if r.Kind != "TakeSnapshot" || !r.GotFrame {
					if r.Kind == "TakeSnapshot" && r.ErrText != "" {
						c.Count("snapshot_errors", 1)
					}
					continue
				}
				c.Count("snapshots_returned", 1)
				if r.AllZero {
					cls := "phase " + r.Phase
					c.Violation("snapshot-of-never-received-frame", cls, fmt.Sprintf("TakeSnapshot returned an all-zero image (no such frame was ever received); request made in phase %q, %d frames processed on this connection at call time", r.Phase, r.ConnProcAtCall))
					continue
				}
				if !r.Uniform {
					c.Violation("snapshot-mixes-two-frames", "", fmt.Sprintf("returned image is not uniform (first pixel %d): a mixture of frames", r.Value))
					continue
				}
				id := seqOfUniform(r.Value)
				if id < 1 || id >= seq {
					c.Violation("snapshot-unknown-frame", "", fmt.Sprintf("returned uniform value %d is not the value of any frame sent (1..%d)", r.Value, seq-1))
					continue
				}
				if r.FrameCount != id {
					c.Violation("snapshot-telemetry-mismatch", "", fmt.Sprintf("image of frame %d carries frame counter %d", id, r.FrameCount))
					continue
				}
				// freshness: >= last frame completed when the request was made (on the connection current at that time)
				if r.ConnFirstAtCall == r.ConnFirstAtRet {
					lo := r.ProcAtCall
					if lo < r.ConnFirstAtCall {
						lo = r.ConnFirstAtCall // nothing completed yet on this connection: any frame of it qualifies
					}
					if int64(id) < lo {
						c.Violation("snapshot-stale", "phase "+r.Phase, fmt.Sprintf("returned frame %d, but frame %d had completed processing when the request was made (first frame of this connection %d)", id, r.ProcAtCall, r.ConnFirstAtCall))
						continue
					}
				}
				if int64(id) > r.RecvAtRet {
					c.Violation("snapshot-from-the-future", "", fmt.Sprintf("returned frame %d, last fully received frame at return was %d", id, r.RecvAtRet))
					continue
				}
				c.Count("snapshots_checked", 1)
			}
			// ---- (c) recordings undisturbed
			for cn, r := range runs {
				frames := allFrames[cn]
				cfiles := decodeDir(filepath.Join(r.OutDir, "constant-recordings"))
				want := expectContinuous(cfg, cam, frames)
				if len(cfiles) != len(want) {
					c.Violation("recordings-disturbed", "continuous", fmt.Sprintf("connection %d: %d continuous files, expected %d", cn, len(cfiles), len(want)))
				} else {
					for i, d := range cfiles {
						if d.Err != "" || !intsEqual(d.seqs(), want[i]) {
							c.Violation("recordings-disturbed", "continuous", fmt.Sprintf("connection %d file %d: %s %s, expected %s", cn, i, d.Err, seqsString(d.seqs()), seqsString(want[i])))
							break
						}
					}
				}
				exp, _ := expectRecordings(cfg, cam, frames)
				files := decodeDir(r.OutDir)
				used := make([]bool, len(files))
				for _, e := range exp {
					if e.Open {
						continue
					}
					found := false
					for i, d := range files {
						if !used[i] && d.Err == "" && intsEqual(d.seqs(), e.Seqs) {
							used[i], found = true, true
							break
						}
					}
					if !found {
						c.Violation("recordings-disturbed", "motion", fmt.Sprintf("connection %d: predicted motion recording %s not found among %d files", cn, seqsString(e.Seqs), len(files)))
						break
					}
					c.Count("motion_recordings_matched", 1)
				}
				for i, d := range files {
					if used[i] {
						continue
					}
					// must be a test recording: 21 consecutive frames
					s := d.seqs()
					ok := d.Err == "" && len(s) == 21
					for k := 1; ok && k < len(s); k++ {
						ok = s[k] == s[k-1]+1
					}
					if !ok {
						c.Violation("recordings-disturbed", "test recording", fmt.Sprintf("connection %d: file %s holds %s %s - neither a predicted motion recording nor a 21-frame test recording", cn, d.Name, seqsString(s), d.Err))
						break
					}
					c.Count("test_recordings_found", 1)
					testFound++
				}
				r.cleanup()
			}
			// requests the service accepted while frames were flowing produce files: not one of them
			// in a whole repetition means the test recorder no longer works next to the frame loop
			accepted := 0
			for _, q := range reqs {
				if q.Kind == "TakeTestRecording" && q.ErrText == "" {
					accepted++
				}
			}
			if accepted >= 50 && testFound == 0 {
				c.Violation("recordings-disturbed", "test recordings missing", fmt.Sprintf("%d TakeTestRecording calls were accepted during %d connections of %d frames, not one 21-frame test recording was found", accepted, nConn, framesPerConn))
				return
			}
			c.Count("connections", int64(nConn))
			c.Count("frames", int64(nConn*framesPerConn))
			c.Nontrivial(vNewHash().U64(uint64(idx)).Int(len(reqs)).Int(runtime.GOMAXPROCS(0)).Sum())
			c.Sample("repetition", func() interface{} {
				return map[string]interface{}{"connections": nConn, "frames_per_connection": framesPerConn, "requesters": nReq, "requests": len(reqs), "GOMAXPROCS": runtime.GOMAXPROCS(0)}
			})
		})
	}
}
