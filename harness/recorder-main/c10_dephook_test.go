//go:build verif && verifdep
// +build verif,verifdep

package main

// Only in the build whose go-cptv file writer is overlaid with a hooked copy
// (see lib/props.py, package key recorder-main-dephooks): route the
// dependency's hook points into the same VerifHook stream.

import cptv "github.com/TheCacophonyProject/go-cptv"

func init() {
	installDepHook = func(h func(string)) { cptv.VerifHook = h }
}
