//go:build verif
// +build verif

package main

// Shared machinery of the pipeline tier: generated config.toml, camera header
// encoding as leptond does it, raw frame builders with independent decoders,
// a chunking net.Conn writer, an in-process handleConn runner and a decoder
// for everything the daemon leaves on disk.

import (
	"bytes"
	"fmt"
	"io"
	"io/ioutil"
	"math"
	"net"
	"os"
	"path/filepath"
	"runtime/debug"
	"sort"
	"strings"
	"sync"
	"time"

	cptv "github.com/TheCacophonyProject/go-cptv"
	"github.com/TheCacophonyProject/go-cptv/cptvframe"
	"github.com/TheCacophonyProject/thermal-recorder/headers"
	yamlv1 "gopkg.in/yaml.v1"
)

// ---------------------------------------------------------------- config.toml

type pMotion struct {
	Set              map[string]bool // which keys are written to [thermal-motion]
	DynamicThreshold bool
	TempThresh       int
	TempThreshMin    int
	TempThreshMax    int
	DeltaThresh      int
	CountThresh      int
	FrameCompareGap  int
	UseOneDiffOnly   bool
	TriggerFrames    int
	WarmerOnly       bool
	EdgePixels       int
}

type pConfig struct {
	DeviceName   string
	DeviceID     int
	MinSecs      int
	MaxSecs      int
	PreviewSecs  int
	MinDiskMB    uint64
	Constant     bool
	Throttle     bool
	BucketSize   string
	MinRefill    string
	WindowStart  string
	WindowStop   string
	Lat, Long    float32
	Alt, Acc     float32
	LocTimestamp time.Time
	HasLocation  bool
	OmitTimes    bool // config.toml names neither min-secs nor max-secs nor preview-secs
	Motion       pMotion
}

func tomlString(s string) string {
	var sb strings.Builder
	sb.WriteByte('"')
	for _, r := range s {
		switch {
		case r == '"':
			sb.WriteString(`\"`)
		case r == '\\':
			sb.WriteString(`\\`)
		case r < 0x20 || r == 0x7f:
			fmt.Fprintf(&sb, `\u%04X`, r)
		default:
			sb.WriteRune(r)
		}
	}
	sb.WriteByte('"')
	return sb.String()
}

func (c *pConfig) toml(outDir, sock string) string {
	var sb strings.Builder
	fmt.Fprintf(&sb, "[device]\nid = %d\nname = %s\n\n", c.DeviceID, tomlString(c.DeviceName))
	fmt.Fprintf(&sb, "[lepton]\nframe-output = %s\n\n", tomlString(sock))
	if c.OmitTimes {
		// min-secs, max-secs and preview-secs left to their documented defaults (10, 600, 5)
		fmt.Fprintf(&sb, "[thermal-recorder]\noutput-dir = %s\nmin-disk-space-mb = %d\nconstant-recorder = %v\n\n", tomlString(outDir), c.MinDiskMB, c.Constant)
	} else {
		fmt.Fprintf(&sb, "[thermal-recorder]\noutput-dir = %s\nmin-disk-space-mb = %d\nmin-secs = %d\nmax-secs = %d\npreview-secs = %d\nconstant-recorder = %v\n\n",
			tomlString(outDir), c.MinDiskMB, c.MinSecs, c.MaxSecs, c.PreviewSecs, c.Constant)
	}
	if c.MinRefill == "" {
		// partial section: min-refill left to its documented default (10 minutes)
		fmt.Fprintf(&sb, "[thermal-throttler]\nactivate = %v\nbucket-size = %s\n\n", c.Throttle, tomlString(c.BucketSize))
	} else {
		fmt.Fprintf(&sb, "[thermal-throttler]\nactivate = %v\nbucket-size = %s\nmin-refill = %s\n\n", c.Throttle, tomlString(c.BucketSize), tomlString(c.MinRefill))
	}
	fmt.Fprintf(&sb, "[windows]\nstart-recording = %s\nstop-recording = %s\n\n", tomlString(c.WindowStart), tomlString(c.WindowStop))
	if c.HasLocation {
		fmt.Fprintf(&sb, "[location]\nlatitude = %v\nlongitude = %v\naltitude = %v\naccuracy = %v\n", c.Lat, c.Long, c.Alt, c.Acc)
		if !c.LocTimestamp.IsZero() {
			fmt.Fprintf(&sb, "timestamp = %s\n", c.LocTimestamp.UTC().Format("2006-01-02T15:04:05.000000Z"))
		}
		sb.WriteString("\n")
	}
	m := c.Motion
	sb.WriteString("[thermal-motion]\n")
	w := func(k string, v interface{}) {
		if m.Set[k] {
			fmt.Fprintf(&sb, "%s = %v\n", k, v)
		}
	}
	w("dynamic-threshold", m.DynamicThreshold)
	w("temp-thresh", m.TempThresh)
	w("temp-thresh-min", m.TempThreshMin)
	w("temp-thresh-max", m.TempThreshMax)
	w("delta-thresh", m.DeltaThresh)
	w("count-thresh", m.CountThresh)
	w("frame-compare-gap", m.FrameCompareGap)
	w("use-one-diff-only", m.UseOneDiffOnly)
	w("trigger-frames", m.TriggerFrames)
	w("warmer-only", m.WarmerOnly)
	w("edge-pixels", m.EdgePixels)
	return sb.String()
}

// effective motion settings = camera-model defaults overlaid by the section
// (written from the go-config documentation of the defaults, independently of
// LoadMotionConfig)
func (c *pConfig) effectiveMotion(model string) pMotion {
	d := pMotion{DynamicThreshold: true, TempThresh: 2900, DeltaThresh: 50, CountThresh: 3, FrameCompareGap: 45, TriggerFrames: 2, UseOneDiffOnly: true, WarmerOnly: true, EdgePixels: 1}
	if model == "lepton3.5" {
		d.TempThresh, d.DeltaThresh = 28000, 200
	}
	m := c.Motion
	if m.Set["dynamic-threshold"] {
		d.DynamicThreshold = m.DynamicThreshold
	}
	if m.Set["temp-thresh"] {
		d.TempThresh = m.TempThresh
	}
	if m.Set["temp-thresh-min"] {
		d.TempThreshMin = m.TempThreshMin
	}
	if m.Set["temp-thresh-max"] {
		d.TempThreshMax = m.TempThreshMax
	}
	if m.Set["delta-thresh"] {
		d.DeltaThresh = m.DeltaThresh
	}
	if m.Set["count-thresh"] {
		d.CountThresh = m.CountThresh
	}
	if m.Set["frame-compare-gap"] {
		d.FrameCompareGap = m.FrameCompareGap
	}
	if m.Set["use-one-diff-only"] {
		d.UseOneDiffOnly = m.UseOneDiffOnly
	}
	if m.Set["trigger-frames"] {
		d.TriggerFrames = m.TriggerFrames
	}
	if m.Set["warmer-only"] {
		d.WarmerOnly = m.WarmerOnly
	}
	if m.Set["edge-pixels"] {
		d.EdgePixels = m.EdgePixels
	}
	return d
}

func allMotionKeys() map[string]bool {
	return map[string]bool{"dynamic-threshold": true, "temp-thresh": true, "temp-thresh-min": true, "temp-thresh-max": true, "delta-thresh": true,
		"count-thresh": true, "frame-compare-gap": true, "use-one-diff-only": true, "trigger-frames": true, "warmer-only": true, "edge-pixels": true}
}

// simple fixed-threshold motion settings under which a toggling hot pixel is
// motion and nothing else is
func simpleMotion(trigger, edge int) pMotion {
	return pMotion{Set: allMotionKeys(), DynamicThreshold: false, TempThresh: 0, DeltaThresh: 10, CountThresh: 1, FrameCompareGap: 1, UseOneDiffOnly: true,
		TriggerFrames: trigger, WarmerOnly: false, EdgePixels: edge}
}

func basicConfig() *pConfig {
	return &pConfig{DeviceName: "verif-device", DeviceID: 42, MinSecs: 1, MaxSecs: 2, PreviewSecs: 1, WindowStart: "12:00", WindowStop: "12:00",
		BucketSize: "10m", MinRefill: "10m", Motion: simpleMotion(1, 1)}
}

// ---------------------------------------------------------------- camera header

type pCamera struct {
	Brand, Model, Firmware string
	Serial                 uint64
	ResX, ResY, FPS        int
	FrameSize              int
}

func leptonCamera(model string, x, y, fps int) pCamera {
	return pCamera{Brand: "flir", Model: model, Firmware: "1.2.3", Serial: 12345, ResX: x, ResY: y, FPS: fps, FrameSize: leptonTelemetryBytes + 2*x*y}
}

func bosonCamera(x, y, fps int) pCamera {
	return pCamera{Brand: "flir", Model: "boson", Firmware: "b-9.8", Serial: 777, ResX: x, ResY: y, FPS: fps, FrameSize: 2 * x * y}
}

// headerBytes encodes the description exactly as cmd/leptond's sendCameraSpecs
// does: yaml.v1 Marshal of a map keyed by the headers constants, then "\n".
func (c pCamera) headerBytes() []byte {
	specs := map[string]interface{}{
		headers.XResolution: c.ResX,
		headers.YResolution: c.ResY,
		headers.FrameSize:   c.FrameSize,
		headers.Model:       c.Model,
		headers.Brand:       c.Brand,
		headers.FPS:         c.FPS,
		headers.Serial:      c.Serial,
		headers.Firmware:    c.Firmware,
	}
	if c.Serial <= math.MaxInt64 {
		specs[headers.Serial] = int(c.Serial)
	}
	b, err := yamlv1.Marshal(specs)
	if err != nil {
		panic(err)
	}
	return append(b, '\n')
}

// ---------------------------------------------------------------- raw frames

const leptonTelemetryBytes = 640

type pFrame struct {
	Seq         int
	Pix         [][]uint16
	TimeOnMS    uint32
	LastFFCMS   uint32
	FPATempCK   uint16
	FPAFFCCK    uint16
	StatusBits  uint32
	FrameMean   uint16
	Clear       bool // a "clear" marker instead of a frame
	Bad         bool // generated with an interior zero
	MotionAimed bool
	MarkerLike  bool // first four bytes equal the first four bytes of the 'clear' marker
	// a valid frame with zero pixels deep inside a wide border
	WideBorderZero bool
}

func putWordBE(b []byte, word int, v uint16) { b[2*word], b[2*word+1] = byte(v>>8), byte(v) }
func put32LowFirst(b []byte, word int, v uint32) {
	putWordBE(b, word, uint16(v))
	putWordBE(b, word+1, uint16(v>>16))
}

// rawLepton encodes a frame in the Lepton socket format: 640 telemetry bytes
// (FLIR telemetry words, big-endian, 32-bit values low word first) followed by
// big-endian pixels.
func (f *pFrame) rawLepton(cam pCamera) []byte {
	raw := make([]byte, cam.FrameSize)
	putWordBE(raw, 0, 0x000e)
	put32LowFirst(raw, 1, f.TimeOnMS)
	put32LowFirst(raw, 3, f.StatusBits)
	put32LowFirst(raw, 20, uint32(f.Seq))
	putWordBE(raw, 22, f.FrameMean)
	putWordBE(raw, 24, f.FPATempCK)
	putWordBE(raw, 29, f.FPAFFCCK)
	put32LowFirst(raw, 30, f.LastFFCMS)
	i := leptonTelemetryBytes
	for y := 0; y < cam.ResY; y++ {
		for x := 0; x < cam.ResX; x++ {
			v := f.Pix[y][x]
			raw[i], raw[i+1] = byte(v>>8), byte(v)
			i += 2
		}
	}
	return raw
}

func (f *pFrame) rawBoson(cam pCamera) []byte {
	raw := make([]byte, cam.FrameSize)
	i := 0
	for y := 0; y < cam.ResY; y++ {
		for x := 0; x < cam.ResX; x++ {
			v := f.Pix[y][x]
			raw[i], raw[i+1] = byte(v), byte(v>>8)
			i += 2
		}
	}
	return raw
}

func (f *pFrame) raw(cam pCamera) []byte {
	if cam.Model == "boson" {
		return f.rawBoson(cam)
	}
	return f.rawLepton(cam)
}

// hasInteriorZero is the independent definition of a bad frame.
func (f *pFrame) hasInteriorZero(edge int) bool {
	for y := edge; y < len(f.Pix)-edge; y++ {
		for x := edge; x < len(f.Pix[y])-edge; x++ {
			if f.Pix[y][x] == 0 {
				return true
			}
		}
	}
	return false
}

// framesToCptv converts a generated frame into the decoded form (for direct recorder use).
func framesToCptv(f *pFrame, cam pCamera) *cptvframe.Frame {
	out := cptvframe.NewFrame(vSpec{cam.ResX, cam.ResY, cam.FPS})
	for y := range f.Pix {
		copy(out.Pix[y], f.Pix[y])
	}
	out.Status = cptvframe.Telemetry{TimeOn: time.Duration(f.TimeOnMS) * time.Millisecond, LastFFCTime: time.Duration(f.LastFFCMS) * time.Millisecond, FrameCount: f.Seq,
		TempC: centiKToC(f.FPATempCK), LastFFCTempC: centiKToC(f.FPAFFCCK)}
	return out
}

func centiKToC(ck uint16) float64 { return float64(int(ck)-27315) / 100 }

func newPix(x, y int, v uint16) [][]uint16 {
	p := make([][]uint16, y)
	for i := range p {
		p[i] = make([]uint16, x)
		for j := range p[i] {
			p[i][j] = v
		}
	}
	return p
}

func pixEqual(a, b [][]uint16) bool {
	if len(a) != len(b) {
		return false
	}
	for y := range a {
		if len(a[y]) != len(b[y]) {
			return false
		}
		for x := range a[y] {
			if a[y][x] != b[y][x] {
				return false
			}
		}
	}
	return true
}

// timeOnFor maps a sequence id to a unique TimeOn (ms) that survives CPTV.
func timeOnFor(seq int) uint32 { return uint32(600000 + seq*10) }
func seqForTimeOn(d time.Duration) int {
	ms := int(d / time.Millisecond)
	if ms < 600000 || (ms-600000)%10 != 0 {
		return -1
	}
	return (ms - 600000) / 10
}

// ---------------------------------------------------------------- chunked writer

// chunkWriter splits a byte stream into PRNG-chosen segments; over net.Pipe
// every Write is one (or more) Reads on the other side, so segment boundaries
// are read boundaries.
type chunkWriter struct {
	w    io.Writer
	rng  *vRNG
	mode int // 0 random small/large, 1 one byte, 2 huge, 3 frame-aligned
	n    int64
	cuts int64
}

func (c *chunkWriter) Write(p []byte) error {
	for len(p) > 0 {
		var k int
		switch c.mode {
		case 1:
			k = 1
		case 2:
			k = len(p)
		case 3:
			k = len(p)
		default:
			switch c.rng.Intn(6) {
			case 0:
				k = 1
			case 1:
				k = c.rng.Range(1, 7)
			case 2:
				k = c.rng.Range(1, 700)
			case 3:
				k = c.rng.Range(4000, 9000)
			default:
				k = c.rng.Range(1, 64)
			}
		}
		if k > len(p) {
			k = len(p)
		}
		if _, err := c.w.Write(p[:k]); err != nil {
			return err
		}
		c.n += int64(k)
		c.cuts++
		p = p[k:]
	}
	return nil
}

// ---------------------------------------------------------------- running handleConn

type hookLog struct {
	mu     sync.Mutex
	counts map[string]int
	fn     func(name string)
}

func (h *hookLog) hook(name string) {
	h.mu.Lock()
	h.counts[name]++
	fn := h.fn
	h.mu.Unlock()
	if fn != nil {
		fn(name)
	}
}

type connRun struct {
	Dir      string // scratch root for this connection
	ConfDir  string
	OutDir   string
	Cfg      *pConfig
	Cam      pCamera
	Conf     *Config
	Err      error
	Hooks    *hookLog
	Header   *headers.HeaderInfo
	Duration time.Duration
	WriteErr error
}

var connSerial int

// prepareConn writes config.toml and parses it with the repository's ParseConfig.
// prepareSymlinkedOut makes prepareConn reach the output directory through symbolic links.
var prepareSymlinkedOut bool

// prepareOutName, when set, is the name prepareConn gives the output directory (names that mean
// something to pattern matching: brackets, stars, question marks).
var prepareOutName string

// prepareRelativeOut makes prepareConn configure a relative output-dir (see there).
var prepareRelativeOut bool

// relativeOutDecoys lists directories named like the relative output-dir under other bases.
func relativeOutDecoys(connDir string) []string {
	return []string{filepath.Join(connDir, "etc", "out-rel"), filepath.Join(connDir, "out-rel")}
}

func prepareConn(scratch string, cfg *pConfig, cam pCamera) (*connRun, error) {
	connSerial++
	dir := filepath.Join(scratch, fmt.Sprintf("conn%06d", connSerial))
	r := &connRun{Dir: dir, ConfDir: filepath.Join(dir, "etc"), OutDir: filepath.Join(dir, "out"), Cfg: cfg, Cam: cam}
	if prepareOutName != "" {
		r.OutDir = filepath.Join(dir, prepareOutName)
	}
	if err := os.MkdirAll(r.ConfDir, 0755); err != nil {
		return nil, err
	}
	if prepareRelativeOut {
		// output-dir is a relative path and the daemon's working directory is not the
		// configuration directory (only in a child process of its own: chdir is process-wide)
		cwd := filepath.Join(dir, "cwd")
		if err := os.MkdirAll(cwd, 0755); err != nil {
			return nil, err
		}
		if err := os.Chdir(cwd); err != nil {
			return nil, err
		}
		r.OutDir = filepath.Join(cwd, "out-rel")
		if err := os.MkdirAll(r.OutDir, 0755); err != nil {
			return nil, err
		}
		// directories of the same relative name exist under other bases too (the configuration
		// directory, its parent): nothing may ever be written there
		for _, decoy := range relativeOutDecoys(dir) {
			if err := os.MkdirAll(decoy, 0755); err != nil {
				return nil, err
			}
		}
		if err := ioutil.WriteFile(filepath.Join(r.ConfDir, "config.toml"), []byte(cfg.toml("out-rel", filepath.Join(dir, "frames.sock"))), 0644); err != nil {
			return nil, err
		}
		conf, err := ParseConfig(r.ConfDir)
		if err != nil {
			return nil, fmt.Errorf("ParseConfig: %v", err)
		}
		r.Conf = conf
		return r, nil
	}
	if prepareSymlinkedOut {
		// the configured output directory and its constant-recordings folder are symbolic
		// links (recordings kept on another partition / a USB stick)
		real, realConst := filepath.Join(dir, "disk", "out"), filepath.Join(dir, "disk", "const")
		if err := os.MkdirAll(real, 0755); err != nil {
			return nil, err
		}
		if err := os.MkdirAll(realConst, 0755); err != nil {
			return nil, err
		}
		if err := os.Symlink(real, r.OutDir); err != nil {
			return nil, err
		}
		if err := os.Symlink(realConst, filepath.Join(real, "constant-recordings")); err != nil {
			return nil, err
		}
	}
	if err := os.MkdirAll(r.OutDir, 0755); err != nil {
		return nil, err
	}
	if err := ioutil.WriteFile(filepath.Join(r.ConfDir, "config.toml"), []byte(cfg.toml(r.OutDir, filepath.Join(dir, "frames.sock"))), 0644); err != nil {
		return nil, err
	}
	conf, err := ParseConfig(r.ConfDir)
	if err != nil {
		return nil, fmt.Errorf("ParseConfig: %v", err)
	}
	r.Conf = conf
	return r, nil
}

// serve runs the repository's handleConn on one end of a pipe while feed
// writes to the other end; returns when both are done.
func (r *connRun) serve(feed func(w io.Writer) error, hookFn func(string)) {
	// the code multiplies these package-level counters by fps per connection
	frameLogIntervalFirstMin = 15
	frameLogInterval = 60 * 5
	r.Hooks = &hookLog{counts: map[string]int{}, fn: hookFn}
	VerifHook = r.Hooks.hook
	a, b := net.Pipe()
	done := make(chan error, 1)
	t0 := time.Now()
	go func() {
		// closing the read side unblocks the feeder when handleConn gives up early
		defer b.Close()
		defer func() {
			if p := recover(); p != nil {
				done <- fmt.Errorf("PANIC in handleConn: %v\n%s", p, vTrimStack(debug.Stack()))
			}
		}()
		done <- handleConn(&scaledDeadlineConn{Conn: b}, r.Conf)
	}()
	r.WriteErr = feed(a)
	a.Close()
	r.Err = <-done
	b.Close()
	r.Duration = time.Since(t0)
	VerifHook = nil
}

func (r *connRun) cleanup() { os.RemoveAll(r.Dir) }

// ---------------------------------------------------------------- decoding output

type decFrame struct {
	Seq        int // from TimeOn, -1 if not decodable / background
	Background bool
	TimeOn     time.Duration
	LastFFC    time.Duration
	TempC      float64
	FFCTempC   float64
	Pix        [][]uint16
}

type decFile struct {
	Path        string
	Name        string
	Err         string // non-empty if the stock reader failed anywhere
	NumFrames   int    // header field
	Frames      []decFrame
	DeviceName  string
	DeviceID    int
	Brand       string
	Model       string
	Serial      int
	Firmware    string
	ResX, ResY  int
	FPS         int
	PreviewSecs int
	Motion      string
	Lat, Long   float32
	Alt, Acc    float32
	LocTS       time.Time
	HasBg       bool
	Timestamp   time.Time
}

// decodeCPTV decodes a file from header to EOF with the stock go-cptv reader.
func decodeCPTV(path string) *decFile {
	d := &decFile{Path: path, Name: filepath.Base(path)}
	fr, err := cptv.NewFileReader(path)
	if err != nil {
		d.Err = "open/header: " + err.Error()
		return d
	}
	defer fr.Close()
	d.NumFrames = int(fr.NumFrames())
	d.DeviceName, d.DeviceID = fr.DeviceName(), fr.DeviceID()
	d.Brand, d.Model, d.Serial, d.Firmware = fr.BrandName(), fr.ModelName(), fr.SerialNumber(), fr.FirmwareVersion()
	d.ResX, d.ResY, d.FPS = fr.ResX(), fr.ResY(), fr.FPS()
	d.PreviewSecs, d.Motion = fr.PreviewSecs(), fr.MotionConfig()
	d.Lat, d.Long, d.Alt, d.Acc, d.LocTS = fr.Latitude(), fr.Longitude(), fr.Altitude(), fr.Accuracy(), fr.LocTimestamp()
	d.HasBg = fr.HasBackgroundFrame()
	d.Timestamp = fr.Timestamp()
	if d.ResX <= 0 || d.ResY <= 0 || d.ResX > 2000 || d.ResY > 2000 {
		d.Err = fmt.Sprintf("implausible resolution %dx%d", d.ResX, d.ResY)
		return d
	}
	for {
		f := cptvframe.NewFrame(vSpec{d.ResX, d.ResY, d.FPS})
		err := func() (err error) {
			defer func() {
				if p := recover(); p != nil {
					err = fmt.Errorf("reader panic: %v", p)
				}
			}()
			return fr.ReadFrame(f)
		}()
		if err == io.EOF {
			break
		}
		if err != nil {
			d.Err = fmt.Sprintf("frame %d: %v", len(d.Frames), err)
			return d
		}
		df := decFrame{Seq: -1, Background: f.Status.BackgroundFrame, TimeOn: f.Status.TimeOn, LastFFC: f.Status.LastFFCTime, TempC: f.Status.TempC, FFCTempC: f.Status.LastFFCTempC, Pix: f.Pix}
		if !df.Background {
			df.Seq = seqForTimeOn(f.Status.TimeOn)
		}
		d.Frames = append(d.Frames, df)
		if len(d.Frames) > 200000 {
			d.Err = "runaway decode"
			return d
		}
	}
	if d.NumFrames != len(d.Frames) {
		d.Err = fmt.Sprintf("header says %d frames, %d decoded", d.NumFrames, len(d.Frames))
	}
	return d
}

type vSpec struct{ x, y, fps int }

func (c vSpec) ResX() int { return c.x }
func (c vSpec) ResY() int { return c.y }
func (c vSpec) FPS() int  { return c.fps }

// dirListing returns the entries of a directory (names only, sorted; "" if absent).
func dirListing(dir string) []string {
	ents, err := ioutil.ReadDir(dir)
	if err != nil {
		return nil
	}
	out := []string{}
	for _, e := range ents {
		n := e.Name()
		isDir := e.IsDir()
		if e.Mode()&os.ModeSymlink != 0 {
			// a directory reached through a symbolic link is a directory
			if st, err := os.Stat(filepath.Join(dir, n)); err == nil {
				isDir = st.IsDir()
			}
		}
		if isDir {
			n += "/"
		}
		out = append(out, n)
	}
	sort.Strings(out)
	return out
}

// decodeDir decodes every *.cptv in dir, ordered by first frame id.
func decodeDir(dir string) []*decFile {
	var out []*decFile
	for _, n := range dirListing(dir) {
		if strings.HasSuffix(n, ".cptv") {
			out = append(out, decodeCPTV(filepath.Join(dir, n)))
		}
	}
	sort.SliceStable(out, func(i, j int) bool { return out[i].firstSeq() < out[j].firstSeq() })
	return out
}

func (d *decFile) firstSeq() int {
	for _, f := range d.Frames {
		if !f.Background {
			return f.Seq
		}
	}
	return 1 << 30
}

func (d *decFile) seqs() []int {
	out := []int{}
	for _, f := range d.Frames {
		if !f.Background {
			out = append(out, f.Seq)
		}
	}
	return out
}

func seqsString(s []int) string {
	if len(s) == 0 {
		return "[]"
	}
	if len(s) <= 6 {
		return fmt.Sprint(s)
	}
	return fmt.Sprintf("[%d %d %d … %d %d] (%d)", s[0], s[1], s[2], s[len(s)-2], s[len(s)-1], len(s))
}

var _ = bytes.NewReader

// scaledDeadlineConn shortens every read/write deadline the code under test arms by a factor
// of 30 (a 30 s timeout expires after 1 s of harness time); code that arms none - the unchanged
// daemon - never notices. It lets "the camera went quiet for longer than the timeout" be
// played in seconds.
type scaledDeadlineConn struct{ net.Conn }

const deadlineScale = 30

func scaleDeadline(t time.Time) time.Time {
	if t.IsZero() {
		return t
	}
	return time.Now().Add(time.Until(t) / deadlineScale)
}
func (c *scaledDeadlineConn) SetDeadline(t time.Time) error {
	return c.Conn.SetDeadline(scaleDeadline(t))
}
func (c *scaledDeadlineConn) SetReadDeadline(t time.Time) error {
	return c.Conn.SetReadDeadline(scaleDeadline(t))
}
func (c *scaledDeadlineConn) SetWriteDeadline(t time.Time) error {
	return c.Conn.SetWriteDeadline(scaleDeadline(t))
}
