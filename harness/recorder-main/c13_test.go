//go:build verif
// +build verif

package main

// C13 - bad frames are rejected, never recorded or buffered, end the recording
// cleanly; valid raw frames are decoded pixel-exactly (both camera formats).
// Runs in cmd/thermal-recorder so that frameParser's choice and
// convertRawBosonFrame are the code under test.

import (
	"errors"
	"fmt"
	"testing"
	"time"

	goconfig "github.com/TheCacophonyProject/go-config"
	"github.com/TheCacophonyProject/go-cptv/cptvframe"
	"github.com/TheCacophonyProject/lepton3"
	"github.com/TheCacophonyProject/thermal-recorder/motion"
	"github.com/TheCacophonyProject/thermal-recorder/recorder"
	"github.com/TheCacophonyProject/window"
)

type mOp struct {
	Op    byte // S W P
	Seq   int
	Frame *cptvframe.Frame // copy, for writes
}

type mSink struct {
	name string
	ops  []mOp
	open bool
	cam  pCamera
	viol string
	// storage hiccup: StopRecording reports an error (the file is closed all the same)
	stopFail func() bool
}

func (s *mSink) frameSeq(f *cptvframe.Frame) int {
	if s.cam.Model == "boson" {
		return int(f.Pix[0][0]) - 1
	}
	return f.Status.FrameCount
}
func (s *mSink) StopRecording() error {
	s.ops = append(s.ops, mOp{Op: 'P'})
	wasOpen := s.open
	s.open = false
	if wasOpen && s.stopFail != nil && s.stopFail() {
		return errors.New("scripted: rename of the finished recording failed")
	}
	return nil
}
func (s *mSink) StartRecording(bg *cptvframe.Frame, th uint16) error {
	if s.open && s.viol == "" {
		s.viol = "start while open"
	}
	s.ops = append(s.ops, mOp{Op: 'S'})
	s.open = true
	return nil
}
func (s *mSink) WriteFrame(f *cptvframe.Frame) error {
	if !s.open && s.viol == "" {
		s.viol = "write while closed"
	}
	s.ops = append(s.ops, mOp{Op: 'W', Seq: s.frameSeq(f), Frame: f.CreateCopy()})
	return nil
}
func (s *mSink) CheckCanRecord() error { return nil }

type mFlag struct{ hit bool }

func (m *mFlag) MotionDetected()   { m.hit = true }
func (m *mFlag) RecordingStarted() {}
func (m *mFlag) RecordingEnded()   {}

type c13Rig struct {
	mp                  *motion.MotionProcessor
	motionS, contS, tst *mSink
	flag                *mFlag
	cam                 pCamera
}

func newC13Rig(cam pCamera, m pMotion, minS, maxS, prevS int) *c13Rig {
	r := &c13Rig{cam: cam, flag: &mFlag{}}
	r.motionS, r.contS, r.tst = &mSink{name: "motion", cam: cam}, &mSink{name: "continuous", cam: cam}, &mSink{name: "test", cam: cam}
	parse := frameParser(cam.Brand, cam.Model)
	if parse == nil {
		panic("frameParser returned nil for " + cam.Model)
	}
	mc := &goconfig.ThermalMotion{DynamicThreshold: m.DynamicThreshold, TempThresh: uint16(m.TempThresh), DeltaThresh: uint16(m.DeltaThresh), CountThresh: m.CountThresh,
		FrameCompareGap: m.FrameCompareGap, UseOneDiffOnly: m.UseOneDiffOnly, TriggerFrames: m.TriggerFrames, WarmerOnly: m.WarmerOnly, EdgePixels: m.EdgePixels}
	rc := &recorder.RecorderConfig{MinSecs: minS, MaxSecs: maxS, PreviewSecs: prevS, Window: window.Window{NoWindow: true}, ConstantRecorder: true}
	r.mp = motion.NewMotionProcessor(parse, mc, rc, &goconfig.Location{}, r.flag, r.motionS, vSpec{cam.ResX, cam.ResY, cam.FPS}, r.contS, r.tst)
	return r
}

// telemetrySelfTest: the harness encoder/decoder must agree with the pinned
// lepton3 telemetry layout; a disagreement is a harness fault, not a finding.
func telemetrySelfTest(t *testing.T) {
	rng := vNewRNG(99)
	cam := leptonCamera("lepton3", 4, 4, 9)
	for i := 0; i < 200; i++ {
		f := &pFrame{Seq: rng.Intn(1 << 30), Pix: newPix(4, 4, 7), TimeOnMS: uint32(rng.U64()), LastFFCMS: uint32(rng.U64()), FPATempCK: uint16(rng.U64()), FPAFFCCK: uint16(rng.U64()), FrameMean: uint16(rng.U64()), StatusBits: uint32(rng.U64())}
		var tel cptvframe.Telemetry
		if err := lepton3.ParseTelemetry(f.rawLepton(cam), &tel); err != nil {
			fmt.Println("VERIF-HARNESS-FAULT: ParseTelemetry failed on harness-encoded telemetry:", err)
			t.FailNow()
		}
		if tel.TimeOn != time.Duration(f.TimeOnMS)*time.Millisecond || tel.LastFFCTime != time.Duration(f.LastFFCMS)*time.Millisecond || tel.FrameCount != f.Seq ||
			tel.TempC != centiKToC(f.FPATempCK) || tel.LastFFCTempC != centiKToC(f.FPAFFCCK) || tel.FrameMean != f.FrameMean {
			fmt.Printf("VERIF-HARNESS-FAULT: telemetry layout disagreement: encoded %+v decoded %+v\n", f, tel)
			t.FailNow()
		}
	}
}

func isBadFrameErr(err error) bool {
	_, ok := err.(*lepton3.BadFrameErr)
	return ok
}

// compareDecoded checks a frame delivered to a sink against the independent decode.
func compareDecoded(got *cptvframe.Frame, f *pFrame, cam pCamera) string {
	if !pixEqual(got.Pix, f.Pix) {
		for y := range f.Pix {
			for x := range f.Pix[y] {
				if got.Pix[y][x] != f.Pix[y][x] {
					return fmt.Sprintf("pixel (%d,%d): delivered %d, raw frame holds %d", y, x, got.Pix[y][x], f.Pix[y][x])
				}
			}
		}
		return "pixel array shape differs"
	}
	if cam.Model == "boson" {
		return ""
	}
	st := got.Status
	if st.TimeOn != time.Duration(f.TimeOnMS)*time.Millisecond || st.LastFFCTime != time.Duration(f.LastFFCMS)*time.Millisecond {
		return fmt.Sprintf("time-on/last-FFC %v/%v, raw telemetry %d/%d ms", st.TimeOn, st.LastFFCTime, f.TimeOnMS, f.LastFFCMS)
	}
	if st.TempC != centiKToC(f.FPATempCK) || st.LastFFCTempC != centiKToC(f.FPAFFCCK) {
		return fmt.Sprintf("temperatures %v/%v, raw telemetry %v/%v", st.TempC, st.LastFFCTempC, centiKToC(f.FPATempCK), centiKToC(f.FPAFFCCK))
	}
	if st.FrameCount != f.Seq || st.FrameMean != f.FrameMean {
		return fmt.Sprintf("frame counter/mean %d/%d, raw telemetry %d/%d", st.FrameCount, st.FrameMean, f.Seq, f.FrameMean)
	}
	return ""
}

func c13Cameras() []pCamera {
	return []pCamera{leptonCamera("lepton3", 8, 6, 3), leptonCamera("lepton3.5", 8, 6, 3), bosonCamera(8, 6, 3)}
}

func TestVerif_C13(t *testing.T) {
	telemetrySelfTest(t)
	c := vStart(t, "C13", "TestVerif_C13")
	defer c.Finish()
	idx := int64(0)
	// Part A: a zero at every pixel position (exhaustive for 8x6, edge 0..2, all formats),
	// plus several zeros / zeros only in the border
	for _, cam := range c13Cameras() {
		for edge := 0; edge <= 2; edge++ {
			for pos := -2; pos < cam.ResX*cam.ResY; pos++ {
				myIdx := idx
				idx++
				if !c.Mine(myIdx) {
					continue
				}
				cam, edge, pos := cam, edge, pos
				c.Case(myIdx, func() interface{} {
					return map[string]interface{}{"camera": cam.Model, "edge": edge, "zero_at": pos, "legend": "pos -1: zeros on the whole border only; -2: several interior zeros"}
				}, func() {
					rig := newC13Rig(cam, simpleMotion(1, edge), 1, 2, 1)
					rng := c.RNG(myIdx)
					f := &pFrame{Seq: 5, Pix: newPix(cam.ResX, cam.ResY, 0), TimeOnMS: timeOnFor(5), FPATempCK: 30000, FPAFFCCK: 30010}
					for y := range f.Pix {
						for x := range f.Pix[y] {
							f.Pix[y][x] = uint16(1 + rng.Intn(65535))
						}
					}
					switch {
					case pos >= 0:
						f.Pix[pos/cam.ResX][pos%cam.ResX] = 0
					case pos == -1:
						for y := range f.Pix {
							for x := range f.Pix[y] {
								if y < edge || x < edge || y >= cam.ResY-edge || x >= cam.ResX-edge {
									f.Pix[y][x] = 0
								}
							}
						}
					default:
						for k := 0; k < 3; k++ {
							f.Pix[edge+rng.Intn(cam.ResY-2*edge)][edge+rng.Intn(cam.ResX-2*edge)] = 0
						}
					}
					if cam.Model == "boson" && f.Pix[0][0] != 0 {
						f.Pix[0][0] = 6
					}
					want := f.hasInteriorZero(edge)
					err := rig.mp.Process(f.raw(cam))
					got := isBadFrameErr(err)
					if err != nil && !got {
						c.Violation("unexpected-error-type", cam.Model, fmt.Sprintf("Process returned %T %v", err, err))
						return
					}
					if got != want {
						kind := "zero-pixel-frame-accepted"
						if got {
							kind = "valid-frame-rejected"
						}
						c.Violation(kind, fmt.Sprintf("%s edge=%d", cam.Model, edge), fmt.Sprintf("zero at position %d (row %d col %d), edge %d: bad-frame error %v, independent decode says bad=%v", pos, pos/cam.ResX, pos%cam.ResX, edge, got, want))
						return
					}
					if want {
						c.Count("bad_frames_rejected", 1)
						for _, snk := range []*mSink{rig.contS, rig.motionS, rig.tst} {
							for _, op := range snk.ops {
								if op.Op != 'P' { // the error path may issue a (harmless) stop
									c.Violation("bad-frame-reached-a-sink", cam.Model, fmt.Sprintf("%s sink saw %c after a rejected frame", snk.name, op.Op))
								}
							}
						}
					} else {
						c.Count("valid_frames_accepted", 1)
						var w *mOp
						for i := range rig.contS.ops {
							if rig.contS.ops[i].Op == 'W' {
								w = &rig.contS.ops[i]
							}
						}
						if w == nil {
							c.Violation("valid-frame-not-delivered", cam.Model, "continuous sink saw no write for an accepted frame")
							return
						}
						if msg := compareDecoded(w.Frame, f, cam); msg != "" {
							c.Violation("frame-decoded-wrongly", cam.Model, msg)
						}
					}
					c.Nontrivial(vNewHash().Str(cam.Model).Int(edge).Int(pos).Sum())
					c.Seen("formats", cam.Model)
				})
			}
		}
	}
	// Part B: streams with bad frames at every offset relative to triggers and recordings
	n := c.N(3000, 1200000)
	for s := int64(0); s < n; s++ {
		myIdx := idx
		idx++
		if !c.Mine(myIdx) {
			continue
		}
		rng := c.RNG(myIdx)
		cam := c13Cameras()[rng.Intn(3)]
		cam.FPS = rng.Range(1, 4)
		edge := rng.Range(0, 2)
		if cam.Model == "boson" && edge == 0 {
			edge = 1
		}
		trig := rng.Range(1, 3)
		minS, maxS, prevS := rng.Range(0, 2), 0, rng.Range(0, 2)
		maxS = minS + rng.Range(0, 3)
		nf := rng.Range(10, 90)
		o := streamOpts{Frames: nf, BadPct: rng.PickInt(3, 8, 20), MotionPct: rng.PickInt(40, 80, 100), Clears: 0}
		frames := genStream(rng, cam, edge, o)
		// also place a bad frame deterministically at an offset relative to the first motion burst
		firstMotion := -1
		for i, f := range frames {
			if f.MotionAimed && i > 0 {
				firstMotion = i
				break
			}
		}
		if firstMotion >= 0 {
			k := firstMotion + rng.Range(-2, trig+minS*cam.FPS+2)
			if k >= 0 && k < len(frames) && !frames[k].Bad {
				frames[k].Pix[edge][edge] = 0
				frames[k].Bad = true
			}
		}
		if rng.Chance(30) { // consecutive bad frames
			k := rng.Intn(len(frames) - 1)
			for j := k; j < k+2; j++ {
				frames[j].Pix[edge][edge] = 0
				frames[j].Bad = true
			}
		}
		if cam.Model == "boson" {
			stampBoson(frames)
		}
		snapAt := map[int]bool{}
		if rng.Chance(50) {
			snapAt[rng.Intn(nf)] = true
		}
		mcfg := simpleMotion(trig, edge)
		c.Case(myIdx, func() interface{} {
			evs := ""
			for i, f := range frames {
				if snapAt[i] {
					evs += "s"
				}
				switch {
				case f.Bad:
					evs += "B"
				case f.MotionAimed:
					evs += "m"
				default:
					evs += "f"
				}
			}
			return map[string]interface{}{"camera": fmt.Sprintf("%s %dx%d@%d", cam.Model, cam.ResX, cam.ResY, cam.FPS), "edge": edge, "trigger": trig, "min/max/preview": fmt.Sprintf("%d/%d/%d", minS, maxS, prevS), "stream": evs}
		}, func() {
			rig := newC13Rig(cam, mcfg, minS, maxS, prevS)
			twin := newC13Rig(cam, mcfg, minS, maxS, prevS) // same stream with the bad frames deleted
			if myIdx%3 == 0 {
				// a bad frame must be reported as such even when closing the recording it interrupts fails
				frng := vNewRNG(uint64(myIdx), 5)
				rig.motionS.stopFail = func() bool { return frng.Chance(60) }
				// ... and when closing the continuous file fails as well
				crng := vNewRNG(uint64(myIdx), 6)
				rig.contS.stopFail = func() bool { return crng.Chance(60) }
				c.Count("streams_with_failing_stops", 1)
			}
			badSeq := map[int]bool{}
			badWhileRecording := false
			var verdicts, twinVerdicts []bool
			nbad := 0
			for i, f := range frames {
				if snapAt[i] {
					rig.mp.RequestSnapshot()
				}
				if f.hasInteriorZero(edge) != f.Bad {
					panic("harness: generator bad flag disagrees with independent decode")
				}
				wasOpen := rig.motionS.open
				nc := len(rig.contS.ops)
				rig.flag.hit = false
				err := rig.mp.Process(f.raw(cam))
				if isBadFrameErr(err) != f.Bad {
					c.Violation("bad-frame-classification", cam.Model, fmt.Sprintf("frame %d: bad-frame error %v (%v), independent decode says bad=%v", i, isBadFrameErr(err), err, f.Bad))
					return
				}
				if f.Bad {
					nbad++
					badSeq[f.Seq] = true
					if rig.motionS.open {
						c.Violation("recording-open-across-bad-frame", cam.Model, fmt.Sprintf("frame %d is bad but the motion recording was not stopped", i))
						return
					}
					if wasOpen {
						c.Count("recordings_ended_by_bad_frame", 1)
						badWhileRecording = true
					}
					if rig.flag.hit {
						c.Violation("bad-frame-reached-detector", cam.Model, fmt.Sprintf("motion callback on rejected frame %d", i))
						return
					}
				} else {
					verdicts = append(verdicts, rig.flag.hit)
					twin.flag.hit = false
					if e2 := twin.mp.Process(f.raw(cam)); e2 != nil {
						c.Violation("valid-frame-rejected", cam.Model, fmt.Sprintf("frame %d rejected in the twin run: %v", i, e2))
						return
					}
					twinVerdicts = append(twinVerdicts, twin.flag.hit)
					if verdicts[len(verdicts)-1] != twinVerdicts[len(twinVerdicts)-1] {
						c.Violation("bad-frame-entered-detector-history", cam.Model, fmt.Sprintf("valid frame %d: motion=%v, but %v in the same stream with the bad frames deleted", i, rig.flag.hit, twin.flag.hit))
						return
					}
					// processing resumes: the accepted frame reaches the continuous sink, decoded exactly
					var w *mOp
					for k := nc; k < len(rig.contS.ops); k++ {
						if rig.contS.ops[k].Op == 'W' {
							w = &rig.contS.ops[k]
						}
					}
					if w == nil {
						c.Violation("valid-frame-not-delivered", cam.Model, fmt.Sprintf("valid frame %d did not reach the continuous sink", i))
						return
					}
					if msg := compareDecoded(w.Frame, f, cam); msg != "" {
						c.Violation("frame-decoded-wrongly", cam.Model, fmt.Sprintf("frame %d: %s", i, msg))
						return
					}
				}
				// a snapshot never shows a rejected frame
				// (needs an accepted frame: before that the "recent" slot was never written, see C16/F11)
				if _, rf := rig.mp.GetRecentFrame(); rf != nil && len(verdicts) > 0 && prevS*cam.FPS+trig >= 2 {
					seq := rig.motionS.frameSeq(rf)
					if badSeq[seq] {
						c.Violation("snapshot-shows-bad-frame", cam.Model, fmt.Sprintf("after frame %d GetRecentFrame returned rejected frame %d", i, seq))
						return
					}
				}
			}
			for _, snk := range []*mSink{rig.motionS, rig.contS, rig.tst} {
				if snk.viol != "" {
					c.Violation("sink-protocol", snk.name+" sink", snk.viol)
					return
				}
				for _, op := range snk.ops {
					if op.Op == 'W' && badSeq[op.Seq] {
						c.Violation("bad-frame-recorded", snk.name+" sink", fmt.Sprintf("rejected frame %d was written to the %s sink (pre-trigger buffer or recording)", op.Seq, snk.name))
						return
					}
				}
			}
			// motion sink content must equal the twin's (bad frames never enter the pre-trigger buffer)
			ms, ts := "", ""
			for _, op := range rig.motionS.ops {
				if op.Op == 'W' {
					ms += fmt.Sprintf("%d ", op.Seq)
				}
			}
			for _, op := range twin.motionS.ops {
				if op.Op == 'W' {
					ts += fmt.Sprintf("%d ", op.Seq)
				}
			}
			if !badWhileRecording && myIdx%3 != 0 && ms != ts {
				// no recording was interrupted (and storage was healthy): the rejected frames must have
				// left no trace at all - not in the trigger run either
				c.Violation("bad-frame-changed-later-recordings", cam.Model, fmt.Sprintf("no bad frame arrived during a recording, yet the motion recordings differ from those of the same stream with the bad frames deleted:\n%s\nvs\n%s", ms, ts))
				return
			}
			if !badWhileRecording && nbad > 0 {
				c.Count("streams_with_bad_frames_only_outside_recordings", 1)
			}
			c.Count("streams", 1)
			c.Count("bad_frames_in_streams", int64(nbad))
			c.Count("valid_frames_compared", int64(len(verdicts)))
			nm := 0
			for _, v := range verdicts {
				if v {
					nm++
				}
			}
			c.Count("motion_frames", int64(nm))
			c.Seen("formats", cam.Model)
			if nbad > 0 {
				c.Nontrivial(vNewHash().U64(uint64(myIdx)).Int(nbad).Int(nm).Str(ms).Sum())
				c.Sample("stream", func() interface{} {
					return map[string]interface{}{"camera": cam.Model, "frames": nf, "bad_frames": nbad, "motion_frames": nm, "motion_sink_writes": ms}
				})
			}
		})
	}
}
