//go:build verif
// +build verif

package main

// C10 - only complete recordings ever bear the .cptv name; crashes leave no
// debris. Crash-point enumeration: a child process (this test binary
// re-executed) runs a scenario through the real handleConn + CPTVFileRecorder
// and SIGKILLs itself at the n-th file-recorder hook; the parent inspects the
// directory as found (I1), runs the repository's start-up clean-up
// (deleteTempFiles) and inspects again (I2). Inside the child every hook also
// scans the directory synchronously (observer at hook granularity) and a
// free-running goroutine samples it.

import (
	"fmt"
	"io"
	"io/ioutil"
	"log"
	"os"
	"os/exec"
	"path/filepath"
	"strconv"
	"strings"
	"sync"
	"sync/atomic"
	"syscall"
	"testing"
	"time"

	cptv "github.com/TheCacophonyProject/go-cptv"
)

// installDepHook is set by c10_dephook_test.go in the dependency-hook build.
var installDepHook func(func(string))

type c10Scenario struct {
	Name   string
	What   string
	Cfg    *pConfig
	Cam    pCamera
	Frames []*pFrame
	// request a test recording when the k-th frame has been received (0 = never)
	SnapAtFrame int
	// drop the connection in the middle of this frame (0 = send everything)
	CutInFrame int
	// the request is served on the trigger frame (two recordings start together)
	SameFrameStart bool
	// pause between frames in ms (default 2)
	PaceMS int
	// when the k-th, k+1-th and k+2-th frame arrive, the temporary names of the next
	// 100 ms are already taken in the output directory (as another recorder sharing the
	// directory would have taken them): StartRecording has to pick another name
	TakenNamesAtFrame int
	// the output directory and its constant-recordings folder are symbolic links
	SymlinkedDirs bool
	// output-dir in config.toml is a relative path; the working directory differs from the
	// configuration directory
	RelativeOutDir bool
	// name of the output directory when not "out"
	OutName string
	// short camera connections served by the same daemon before the one under observation
	PreludeConns int
	// the uncrashed run must leave at least this many complete recordings in the output directory
	WantComplete int
	// that many finished recordings are already waiting in the output directory and in
	// constant-recordings (an upload backlog) before the connection starts
	Backlog int
}

const backlogPrefix = "backlog-"

// makeBacklog fills dir with n complete recordings (hard links to one small CPTV file).
func makeBacklog(dir string, n int, cam pCamera) error {
	if err := os.MkdirAll(dir, 0755); err != nil {
		return err
	}
	first := filepath.Join(dir, backlogPrefix+"00000.cptv")
	w, err := cptv.NewFileWriter(first, vSpec{cam.ResX, cam.ResY, cam.FPS})
	if err != nil {
		return err
	}
	if err := w.WriteHeader(cptv.Header{Timestamp: time.Now(), DeviceName: "verif", FPS: cam.FPS}); err != nil {
		return err
	}
	for i := 0; i < 3; i++ {
		f := &pFrame{Seq: i, TimeOnMS: timeOnFor(i), Pix: newPix(cam.ResX, cam.ResY, 3000), FPATempCK: 30000, FPAFFCCK: 30000}
		if err := w.WriteFrame(framesToCptv(f, cam)); err != nil {
			return err
		}
	}
	w.Close()
	if d := decodeCPTV(first); d.Err != "" || len(d.Frames) < 2 {
		return fmt.Errorf("backlog recording does not decode: %s", d.Err)
	}
	for i := 1; i < n; i++ {
		if err := os.Link(first, filepath.Join(dir, fmt.Sprintf("%s%05d.cptv", backlogPrefix, i))); err != nil {
			return err
		}
	}
	return nil
}

// takeNames creates empty files bearing the temporary recording names of the next ms milliseconds.
func takeNames(dir string, ms int) {
	now := time.Now()
	for i := 0; i < ms; i++ {
		n := now.Add(time.Duration(i)*time.Millisecond).Format("20060102.150405.000.") + cptvTempExt
		if f, err := os.OpenFile(filepath.Join(dir, n), os.O_CREATE|os.O_EXCL|os.O_WRONLY, 0644); err == nil {
			f.Close()
		}
	}
}

func c10Frames(cam pCamera, pattern string) []*pFrame {
	var out []*pFrame
	hot := uint16(20000)
	seq := 0
	for _, ch := range pattern {
		if ch == 'C' {
			out = append(out, &pFrame{Clear: true, Seq: -1})
			continue
		}
		f := &pFrame{Seq: seq, TimeOnMS: timeOnFor(seq), FPATempCK: 30000, FPAFFCCK: 30000, Pix: newPix(cam.ResX, cam.ResY, 3000)}
		seq++
		if ch == 'm' {
			hot = 50000 - hot
			f.MotionAimed = true
		}
		f.Pix[3][3] = hot
		out = append(out, f)
	}
	return out
}

func c10Scenarios() []c10Scenario {
	cam := leptonCamera("lepton3", 16, 12, 3)
	base := func() *pConfig {
		c := basicConfig()
		c.MinSecs, c.MaxSecs, c.PreviewSecs = 1, 2, 1
		c.Motion = simpleMotion(1, 1)
		return c
	}
	var out []c10Scenario
	s1 := c10Scenario{Name: "S1", What: "one short motion recording", Cfg: base(), Cam: cam, Frames: c10Frames(cam, "ffffmmmffffffffff")}
	out = append(out, s1)
	s2 := c10Scenario{Name: "S2", What: "two back-to-back motion recordings", Cfg: base(), Cam: cam, Frames: c10Frames(cam, "fffmmmmmmmmmmmmmmffffffff")}
	out = append(out, s2)
	c3 := base()
	c3.Throttle, c3.BucketSize, c3.MinRefill = true, "3s", "1h"
	c3.MaxSecs = 4
	s3 := c10Scenario{Name: "S3", What: "throttle cut in the middle of a recording", Cfg: c3, Cam: cam, Frames: c10Frames(cam, "fffmmmmmmmmmmmmmmmmmmmmmmmmmmmffffffff")}
	out = append(out, s3)
	s4 := c10Scenario{Name: "S4", What: "test recording overlapping a motion recording", Cfg: base(), Cam: cam, Frames: c10Frames(cam, "ffffmmmffffffffffffffffffffffffff"), SnapAtFrame: 3}
	out = append(out, s4)
	c5 := base()
	c5.Constant = true
	c5.MaxSecs = 2
	s5 := c10Scenario{Name: "S5", What: "constant recorder on, with a motion recording", Cfg: c5, Cam: cam, Frames: c10Frames(cam, "ffffmmmffffffffffffff")}
	out = append(out, s5)
	s6 := c10Scenario{Name: "S6", What: "connection dropped in mid-frame during a recording (Stop path)", Cfg: base(), Cam: cam, Frames: c10Frames(cam, "ffffmmmmmmmm"), CutInFrame: 9}
	out = append(out, s6)
	s7 := c10Scenario{Name: "S7", What: "'clear' in the middle of a recording", Cfg: base(), Cam: cam, Frames: c10Frames(cam, "ffffmmmCfffmmmfffffff")}
	out = append(out, s7)
	s8 := c10Scenario{Name: "S8", What: "test-recording request served on the frame that triggers a motion recording (both files start in the same millisecond)", Cfg: base(), Cam: cam, Frames: c10Frames(cam, "ffffmmmffffffffffffffffffffffffff"), SnapAtFrame: 4, SameFrameStart: true}
	out = append(out, s8)
	c10 := base()
	c10.DeviceName = strings.Repeat("n", 300) // CPTV strings hold at most 255 bytes: writing the header fails
	s10 := c10Scenario{Name: "S10", What: "every recording start fails while the header is written (device name too long for a CPTV field)", Cfg: c10, Cam: cam, Frames: c10Frames(cam, "ffffmmmmffff")}
	out = append(out, s10)
	s11 := c10Scenario{Name: "S11", What: "the file names of the next 100 ms are already taken when the motion recording starts (name collision, another name is picked)", Cfg: base(), Cam: cam, Frames: c10Frames(cam, "ffffmmmffffffffff"), TakenNamesAtFrame: 5}
	out = append(out, s11)
	c12 := base()
	c12.Constant = true
	c12.MaxSecs = 2
	s12 := c10Scenario{Name: "S12", What: "output directory and constant-recordings folder reached through symbolic links; constant recorder on, with a motion recording", Cfg: c12, Cam: cam, Frames: c10Frames(cam, "ffffmmmffffffffffffff"), SymlinkedDirs: true}
	out = append(out, s12)
	c13 := base()
	c13.Constant = true
	c13.MaxSecs = 2
	s13 := c10Scenario{Name: "S13", What: "3000 finished recordings already wait in the output directory and in constant-recordings (upload backlog); constant recorder on, with a motion recording", Cfg: c13, Cam: cam, Frames: c10Frames(cam, "ffffmmmffffffffffffff"), Backlog: 3000}
	out = append(out, s13)
	s14 := c10Scenario{Name: "S14", What: "output-dir is a relative path and the working directory is not the configuration directory; one motion recording", Cfg: base(), Cam: cam, Frames: c10Frames(cam, "ffffmmmffffffffff"), RelativeOutDir: true, WantComplete: 1}
	out = append(out, s14)
	c15 := base()
	c15.Constant = true
	c15.MaxSecs = 2
	s15 := c10Scenario{Name: "S15", What: "the output directory's name contains characters that mean something to file-name patterns ('[', ']', '*', '?'); constant recorder on, with a motion recording", Cfg: c15, Cam: cam, Frames: c10Frames(cam, "ffffmmmffffffffffffff"), OutName: "out [site 7] *?"}
	out = append(out, s15)
	c17 := base()
	c17.DeviceName = strings.Repeat("n", 300)
	c17.Constant = true
	c17.MaxSecs = 2
	f17 := c10Frames(cam, "ffffmmmmffffffffffmmmffff")
	f17[9].Pix[5][5], f17[9].Bad = 0, true // rejected frames while every start is being refused
	f17[16].Pix[5][5], f17[16].Bad = 0, true
	s17 := c10Scenario{Name: "S17", What: "every recording start fails while the header is written, the constant recorder is on, and two frames of the stream are rejected", Cfg: c17, Cam: cam, Frames: f17}
	out = append(out, s17)
	c16 := base()
	c16.Constant = true
	c16.MaxSecs = 2
	s16 := c10Scenario{Name: "S16", What: "the third camera connection of one daemon run (two short ones before it); constant recorder on, with a motion recording", Cfg: c16, Cam: cam, Frames: c10Frames(cam, "ffffmmmffffffffffffff"), PreludeConns: 2}
	out = append(out, s16)
	c9 := base()
	c9.Throttle, c9.BucketSize, c9.MinRefill = true, "3s", "200ms"
	c9.MaxSecs = 30
	s9 := c10Scenario{Name: "S9", What: "throttle cut and restart in the middle of one long trigger", Cfg: c9, Cam: cam, Frames: c10Frames(cam, "fff"+strings.Repeat("m", 50)+"ffff"), PaceMS: 10}
	out = append(out, s9)
	return out
}

// ---------------------------------------------------------------- directory oracles

// scanComplete returns a description of every *.cptv under dir (and its
// constant-recordings subdirectory) that is not a complete recording.
func scanComplete(outDir string) (bad []string, complete int) {
	for _, dir := range []string{outDir, filepath.Join(outDir, "constant-recordings")} {
		for _, n := range dirListing(dir) {
			if !strings.HasSuffix(n, ".cptv") || strings.HasPrefix(n, backlogPrefix) {
				continue // (backlog entries are the harness' own, verified complete when they were made)
			}
			d := decodeCPTV(filepath.Join(dir, n))
			if d.Err != "" || len(d.Frames) < 2 {
				e := d.Err
				if e == "" {
					e = fmt.Sprintf("only %d frames", len(d.Frames))
				}
				rel, _ := filepath.Rel(outDir, filepath.Join(dir, n))
				bad = append(bad, rel+": "+e)
			} else {
				complete++
			}
		}
	}
	return
}

// debris returns every entry that is not a complete recording.
func debris(outDir string) []string {
	var out []string
	for _, dir := range []string{outDir, filepath.Join(outDir, "constant-recordings")} {
		for _, n := range dirListing(dir) {
			if n == "constant-recordings/" && dir == outDir {
				continue
			}
			if strings.HasSuffix(n, ".cptv") {
				continue // judged by scanComplete
			}
			rel, _ := filepath.Rel(outDir, filepath.Join(dir, n))
			out = append(out, rel)
		}
	}
	return out
}

func debrisClass(names []string) string {
	top, sub := map[string]bool{}, map[string]bool{}
	for _, n := range names {
		kind := "other"
		switch {
		case strings.HasSuffix(n, ".cptv.temp.tmp"):
			kind = "*.cptv.temp.tmp"
		case strings.HasSuffix(n, ".cptv.temp"):
			kind = "*.cptv.temp"
		}
		if strings.HasPrefix(n, "constant-recordings/") {
			sub[kind] = true
		} else {
			top[kind] = true
		}
	}
	s := ""
	for _, k := range []string{"*.cptv.temp", "*.cptv.temp.tmp", "other"} {
		if top[k] {
			s += "output-dir:" + k + " "
		}
	}
	for _, k := range []string{"*.cptv.temp", "*.cptv.temp.tmp", "other"} {
		if sub[k] {
			s += "constant-recordings:" + k + " "
		}
	}
	return strings.TrimSpace(s)
}

// ---------------------------------------------------------------- child

func TestVerif_C10Child(t *testing.T) {
	name := os.Getenv("VERIF_C10_SCENARIO")
	if name == "" {
		t.Skip("child role only")
	}
	log.SetOutput(ioutil.Discard)
	killAt, _ := strconv.Atoi(os.Getenv("VERIF_C10_KILL_AT"))
	root := os.Getenv("VERIF_C10_DIR")
	var sc *c10Scenario
	for _, s := range c10Scenarios() {
		if s.Name == name {
			s := s
			sc = &s
		}
	}
	if sc == nil {
		t.Fatalf("unknown scenario %q", name)
	}
	prepareSymlinkedOut = sc.SymlinkedDirs
	prepareRelativeOut = sc.RelativeOutDir
	prepareOutName = sc.OutName
	r, err := prepareConn(root, sc.Cfg, sc.Cam)
	if err != nil {
		t.Fatal(err)
	}
	if sc.Backlog > 0 {
		for _, d := range []string{r.OutDir, filepath.Join(r.OutDir, "constant-recordings")} {
			if err := makeBacklog(d, sc.Backlog, sc.Cam); err != nil {
				t.Fatal("backlog: ", err)
			}
		}
	}
	// fixed location so that the parent finds the output
	ioutil.WriteFile(filepath.Join(root, "outdir.txt"), []byte(r.OutDir), 0644)
	var hits int64
	var framesRx int64
	i1file := filepath.Join(root, "i1_violations.txt")
	reportI1 := func(where string, bad []string) {
		f, _ := os.OpenFile(i1file, os.O_APPEND|os.O_CREATE|os.O_WRONLY, 0644)
		fmt.Fprintf(f, "%s: %s\n", where, strings.Join(bad, "; "))
		f.Close()
	}
	// a finished recording must never change again: data of a recording in
	// progress only ever lives under temporary names
	var fpMu sync.Mutex
	fingerprints := map[string]string{}
	checkImmutable := func(where string) {
		fpMu.Lock()
		defer fpMu.Unlock()
		for _, dir := range []string{r.OutDir, filepath.Join(r.OutDir, "constant-recordings")} {
			for _, n := range dirListing(dir) {
				if !strings.HasSuffix(n, ".cptv") || strings.HasPrefix(n, backlogPrefix) {
					continue
				}
				b, err := ioutil.ReadFile(filepath.Join(dir, n))
				if err != nil {
					continue
				}
				fp := fmt.Sprintf("%d bytes, hash %x", len(b), vNewHash().Bytes(b).Sum())
				if old, ok := fingerprints[dir+"/"+n]; ok && old != fp {
					reportI1(where, []string{fmt.Sprintf("%s was rewritten in place after it had been given its final name (%s -> %s)", n, old, fp)})
				}
				fingerprints[dir+"/"+n] = fp
			}
		}
	}
	// free-running observer (sampling)
	stop := make(chan struct{})
	obsDone := make(chan struct{})
	var samples int64
	go func() {
		defer close(obsDone)
		if os.Getenv("VERIF_C10_NO_OBSERVER") != "" || sc.Backlog > 0 {
			// (with a backlog of thousands of entries the scans would dominate the run; that
			// scenario is about what the clean-up finds after the kill)
			return
		}
		for {
			select {
			case <-stop:
				return
			default:
			}
			if bad, _ := scanComplete(r.OutDir); len(bad) > 0 {
				reportI1("free-running observer", bad)
			}
			atomic.AddInt64(&samples, 1)
			time.Sleep(500 * time.Microsecond)
		}
	}()
	hook := func(n string) {
		if n == "conn.frame.received" {
			k := atomic.AddInt64(&framesRx, 1)
			if sc.TakenNamesAtFrame > 0 && int(k) >= sc.TakenNamesAtFrame && int(k) < sc.TakenNamesAtFrame+3 {
				fpMu.Lock()
				dir := r.OutDir
				fpMu.Unlock()
				takeNames(dir, 100)
			}
			if sc.SnapAtFrame > 0 && int(k) == sc.SnapAtFrame+1 {
				// the service path: a test recording is requested between frames
				if err := newSnapshotRecording(); err != nil {
					fmt.Println("newSnapshotRecording:", err)
				}
			}
			return
		}
		if !strings.HasPrefix(n, "rec.") && !strings.HasPrefix(n, "cptv.") {
			return
		}
		h := atomic.AddInt64(&hits, 1)
		// synchronous observer at hook granularity. (Not while the frame on which two
		// recordings start together is being processed: the scan would push the two
		// starts into different milliseconds and hide the collision S8 is about.)
		if !(sc.SameFrameStart && int(atomic.LoadInt64(&framesRx)) == sc.SnapAtFrame+1) && sc.Backlog == 0 {
			if bad, _ := scanComplete(r.OutDir); len(bad) > 0 {
				reportI1(fmt.Sprintf("hook #%d %s", h, n), bad)
			}
			checkImmutable(fmt.Sprintf("hook #%d %s", h, n))
		}
		if killAt > 0 && int(h) == killAt {
			ioutil.WriteFile(filepath.Join(root, "killed_at.txt"), []byte(fmt.Sprintf("%d %s", h, n)), 0644)
			syscall.Kill(os.Getpid(), syscall.SIGKILL)
			time.Sleep(time.Hour)
		}
	}
	if installDepHook != nil {
		installDepHook(func(n string) {
			if h := VerifHook; h != nil {
				h(n)
			}
		})
	}
	cw := &chunkWriter{rng: vNewRNG(7), mode: 2}
	hdr := sc.Cam.headerBytes()
	feed := func(w io.Writer) error {
		cw.w = w
		if err := cw.Write(hdr); err != nil {
			return err
		}
		nf := 0
		for _, f := range sc.Frames {
			if f.Clear {
				if err := cw.Write([]byte("clear")); err != nil {
					return err
				}
				continue
			}
			nf++
			raw := f.raw(sc.Cam)
			if sc.CutInFrame > 0 && nf == sc.CutInFrame {
				return cw.Write(raw[:len(raw)/2])
			}
			if err := cw.Write(raw); err != nil {
				return err
			}
			// let recordings started in different frames get different millisecond names,
			// as a real camera (>= 16 ms per frame) always does
			pace := 2
			if sc.PaceMS > 0 {
				pace = sc.PaceMS
			}
			time.Sleep(time.Duration(pace) * time.Millisecond)
		}
		return nil
	}
	for i := 0; i < sc.PreludeConns; i++ {
		// earlier connections of the same daemon run (same configuration object), not observed
		pre := c10Frames(sc.Cam, "ffffff")
		r.serve(func(w io.Writer) error {
			if _, err := w.Write(hdr); err != nil {
				return err
			}
			for _, f := range pre {
				if _, err := w.Write(f.raw(sc.Cam)); err != nil {
					return err
				}
				time.Sleep(2 * time.Millisecond)
			}
			return nil
		}, nil)
	}
	r.serve(feed, hook)
	// S8 repetitions: whether the two starts share a millisecond is up to the clock,
	// so the same connection is replayed several times in fresh directories
	if rep, _ := strconv.Atoi(os.Getenv("VERIF_C10_REPEAT")); rep > 0 && killAt == 0 {
		for i := 0; i < rep; i++ {
			if _, err := os.Stat(i1file); err == nil {
				break
			}
			r2, err := prepareConn(root, sc.Cfg, sc.Cam)
			if err != nil {
				break
			}
			fpMu.Lock()
			r = r2
			fpMu.Unlock()
			atomic.StoreInt64(&framesRx, 0)
			r.serve(feed, hook)
		}
	}
	close(stop)
	<-obsDone
	ioutil.WriteFile(filepath.Join(root, "hits.txt"), []byte(fmt.Sprintf("%d %d %v", hits, atomic.LoadInt64(&samples), r.Err)), 0644)
}

// ---------------------------------------------------------------- parent

type c10Outcome struct {
	Hits       int
	Samples    int
	KilledAt   string
	OutDir     string
	I1InChild  string
	ChildLog   string
	ExitKilled bool
	ExitErr    error
}

func c10RunChild(scratch string, sc string, killAt int) (*c10Outcome, error) {
	root, err := ioutil.TempDir(scratch, "c10-"+sc+"-")
	if err != nil {
		return nil, err
	}
	self := os.Getenv("VERIF_SELF")
	if self == "" {
		self = os.Args[0]
	}
	cmd := exec.Command(self, "-test.run", "^TestVerif_C10Child$", "-test.count=1", "-test.timeout=120s")
	cmd.Env = append(os.Environ(), "VERIF_C10_SCENARIO="+sc, "VERIF_C10_KILL_AT="+strconv.Itoa(killAt), "VERIF_C10_DIR="+root, "VERIF_OUT=", "GORACE=halt_on_error=0")
	out, runErr := cmd.CombinedOutput()
	o := &c10Outcome{ChildLog: string(out), ExitErr: runErr}
	if ee, ok := runErr.(*exec.ExitError); ok {
		if ws, ok := ee.Sys().(syscall.WaitStatus); ok && ws.Signaled() && ws.Signal() == syscall.SIGKILL {
			o.ExitKilled = true
		}
	}
	if b, err := ioutil.ReadFile(filepath.Join(root, "outdir.txt")); err == nil {
		o.OutDir = string(b)
	}
	if b, err := ioutil.ReadFile(filepath.Join(root, "hits.txt")); err == nil {
		fmt.Sscanf(string(b), "%d %d", &o.Hits, &o.Samples)
	}
	if b, err := ioutil.ReadFile(filepath.Join(root, "killed_at.txt")); err == nil {
		o.KilledAt = string(b)
	}
	if b, err := ioutil.ReadFile(filepath.Join(root, "i1_violations.txt")); err == nil {
		o.I1InChild = string(b)
	}
	return o, nil
}

func TestVerif_C10(t *testing.T) {
	if os.Getenv("VERIF_C10_SCENARIO") != "" {
		t.Skip("child")
	}
	c := vStart(t, "C10", "TestVerif_C10")
	defer c.Finish()
	scratch := vEnv("VERIF_SCRATCH", t.TempDir())
	scs := c10Scenarios()
	quickSet := map[string]bool{"S1": true, "S3": true, "S4": true, "S5": true, "S6": true, "S8": true, "S10": true, "S11": true, "S12": true, "S13": true, "S14": true, "S15": true, "S16": true, "S17": true}
	for si, sc := range scs {
		if !c.Thorough() && !quickSet[sc.Name] {
			continue
		}
		// uncrashed run fixes the number of crash points
		base, err := c10RunChild(scratch, sc.Name, 0)
		if err != nil || base.Hits == 0 || base.ExitErr != nil {
			c.Inconclusive(fmt.Sprintf("scenario %s: uncrashed child run failed: %v hits=%d\n%s", sc.Name, err, base.Hits, tail(base.ChildLog, 1500)))
			continue
		}
		c.Note("crash_points_"+sc.Name, base.Hits)
		if sc.SameFrameStart {
			// whether the two starts share a millisecond is up to the clock: repeat the
			// uncrashed run a few times (each is judged like kill point 0)
			for rep := 0; rep < 2; rep++ {
				os.Setenv("VERIF_C10_REPEAT", "10")
				os.Setenv("VERIF_C10_NO_OBSERVER", "1")
				o, err := c10RunChild(scratch, sc.Name, 0)
				os.Unsetenv("VERIF_C10_REPEAT")
				os.Unsetenv("VERIF_C10_NO_OBSERVER")
				c.Count("same_frame_start_repetitions", 11)
				if err == nil && o.I1InChild != "" {
					c.Case(int64(si*10000+9000+rep), func() interface{} {
						return map[string]interface{}{"scenario": sc.Name, "what": sc.What, "repetition": rep}
					}, func() {
						c.Violation("incomplete-file-bears-cptv-name", sc.Name+"; observed while running", fmt.Sprintf("scenario %s (%s), uncrashed repetition %d: %s", sc.Name, sc.What, rep, tail(o.I1InChild, 1200)))
					})
				}
			}
		}
		for n := 0; n <= base.Hits; n++ {
			idx := int64(si*10000 + n)
			if !c.Mine(idx) {
				continue
			}
			sc, n := sc, n
			c.Case(idx, func() interface{} {
				return map[string]interface{}{"scenario": sc.Name, "what": sc.What, "kill_at_hook_hit": n, "of": base.Hits, "legend": "0 = no kill (connection ends normally)"}
			}, func() {
				o := base
				if n > 0 {
					var err error
					o, err = c10RunChild(scratch, sc.Name, n)
					if err != nil {
						c.Inconclusive("child: " + err.Error())
						return
					}
					if !o.ExitKilled {
						c.Inconclusive(fmt.Sprintf("scenario %s kill point %d: child was not killed (%v)\n%s", sc.Name, n, o.ExitErr, tail(o.ChildLog, 800)))
						return
					}
				}
				where := fmt.Sprintf("scenario %s (%s), kill at hook hit %d [%s]", sc.Name, sc.What, n, o.KilledAt)
				if strings.Contains(o.ChildLog, "PANIC in handleConn") {
					c.Violation("panic", sc.Name, where+": "+tail(o.ChildLog, 1500))
					return
				}
				// I1 inside the child: synchronous hook observer + free-running observer
				if o.I1InChild != "" {
					c.Violation("incomplete-file-bears-cptv-name", sc.Name+"; observed while running", where+": "+tail(o.I1InChild, 1200))
					return
				}
				// I1 on the directory as found after the kill
				bad, complete := scanComplete(o.OutDir)
				if sc.RelativeOutDir {
					// o.OutDir is <conn>/cwd/out-rel
					for _, decoy := range relativeOutDecoys(filepath.Dir(filepath.Dir(o.OutDir))) {
						if l := dirListing(decoy); len(l) > 0 {
							c.Violation("files-outside-the-output-directory", sc.Name, fmt.Sprintf("%s: output-dir is the relative path out-rel (working directory %s), yet %s holds %v", where, filepath.Dir(o.OutDir), decoy, l))
							return
						}
					}
				}
				if n == 0 && complete < sc.WantComplete {
					c.Violation("recording-not-in-output-directory", sc.Name, fmt.Sprintf("%s: the connection ended normally, yet the configured output directory %s holds %d complete recording(s), expected at least %d (listing: %v)", where, o.OutDir, complete, sc.WantComplete, dirListing(o.OutDir)))
					return
				}
				if len(bad) > 0 {
					c.Violation("incomplete-file-bears-cptv-name", sc.Name+"; found after kill", where+": "+strings.Join(bad, "; "))
					return
				}
				// start-up clean-up as the daemon performs it, then I2
				if err := deleteTempFiles(o.OutDir); err != nil {
					c.Violation("cleanup-failed", sc.Name, where+": deleteTempFiles: "+err.Error())
					return
				}
				left := debris(o.OutDir)
				bad2, complete2 := scanComplete(o.OutDir)
				if len(bad2) > 0 {
					c.Violation("incomplete-file-after-cleanup", sc.Name, where+": "+strings.Join(bad2, "; "))
					return
				}
				if complete2 < complete {
					c.Violation("cleanup-removed-complete-recording", sc.Name, fmt.Sprintf("%s: %d complete recordings before clean-up, %d after", where, complete, complete2))
					return
				}
				if len(left) > 0 {
					c.Violation("debris-survives-cleanup", debrisClass(left), where+": left after deleteTempFiles: "+strings.Join(left, ", "))
					return
				}
				c.Count("crash_points", 1)
				if strings.Contains(o.KilledAt, "cptv.") {
					c.Count("crash_points_inside_cptv_writer", 1)
				}
				c.Count("complete_recordings_seen", int64(complete))
				c.Count("hook_scans_in_children", int64(o.Hits))
				c.Count("free_running_samples", int64(o.Samples))
				c.Seen("scenarios", sc.Name)
				if n > 0 {
					c.Seen("kill_hooks", strings.SplitN(o.KilledAt+" ?", " ", 3)[1])
				}
				c.Nontrivial(vNewHash().Str(sc.Name).Int(n).Sum())
				if n%7 == 3 {
					c.Sample(sc.Name, func() interface{} {
						return map[string]interface{}{"scenario": sc.Name, "what": sc.What, "killed_at": o.KilledAt, "complete_recordings": complete, "listing_after_cleanup": dirListing(o.OutDir)}
					})
				}
				os.RemoveAll(filepath.Dir(o.OutDir))
			})
		}
	}
}

func tail(s string, n int) string {
	if len(s) > n {
		return "…" + s[len(s)-n:]
	}
	return s
}
