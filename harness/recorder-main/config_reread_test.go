//go:build verif
// +build verif

package main

// The [thermal-motion] section is read again at every camera connection (the daemon does
// not restart when only that section changes): a second connection of the same camera model,
// in the same process, after config.toml was edited, is shaped by the NEW settings.
//   C07 flavour: fixed threshold, delta-thresh raised above the scene's changes - no motion any more;
//   C15 flavour: dynamic threshold, upper limit lifted - the stored threshold follows the scene again.

import (
	"fmt"
	"github.com/TheCacophonyProject/thermal-recorder/headers"
	yamlv1 "gopkg.in/yaml.v1"
	"io"
	"io/ioutil"
	"path/filepath"
	"testing"

	yamlv2 "gopkg.in/yaml.v2"
)

func TestVerif_ConfigReread(t *testing.T) {
	prop := vEnv("VERIF_PROP", "C07")
	if prop != "C15" && prop != "C11" && prop != "C08" {
		prop = "C07"
	}
	c := vStart(t, prop, "TestVerif_ConfigReread")
	defer c.Finish()
	scratch := vEnv("VERIF_SCRATCH", t.TempDir())
	n := c.N(12, 96)
	for idx := int64(0); idx < n; idx++ {
		if !c.Mine(idx) {
			continue
		}
		rng := c.RNG(idx)
		fps := rng.PickInt(3, 9)
		model := []string{"lepton3", "lepton3.5"}[idx%2]
		cam := leptonCamera(model, 16, 12, fps)
		dynamic := prop == "C15" || (prop == "C11" && idx%4 >= 2)
		cfg1, cfg2 := basicConfig(), basicConfig()
		for _, cf := range []*pConfig{cfg1, cfg2} {
			cf.MinSecs, cf.MaxSecs, cf.PreviewSecs = 1, 2, 1
		}
		jump := 1000
		if dynamic {
			cfg1.Motion = pMotion{Set: map[string]bool{"count-thresh": true, "frame-compare-gap": true, "trigger-frames": true, "temp-thresh-min": true, "temp-thresh-max": true}, CountThresh: 1, FrameCompareGap: 1, TriggerFrames: 1, TempThreshMin: 2000, TempThreshMax: 2500}
			cfg2.Motion = pMotion{Set: map[string]bool{"count-thresh": true, "frame-compare-gap": true, "trigger-frames": true, "temp-thresh-min": true, "temp-thresh-max": true}, CountThresh: 1, FrameCompareGap: 1, TriggerFrames: 1, TempThreshMin: 2000, TempThreshMax: 60000}
			jump = 20000
		} else {
			cfg1.Motion = simpleMotion(1, 1)
			cfg1.Motion.DeltaThresh = 50
			cfg2.Motion = simpleMotion(1, 1)
			cfg2.Motion.DeltaThresh = 5000 // the scene's changes (1000 counts) are no motion any more
			if prop == "C08" {
				// as a job of C08: the border is widened from 1 to 3 pixels instead, and the second
				// connection's warm block lies wholly inside the new border
				cfg2.Motion.DeltaThresh, cfg2.Motion.EdgePixels = 50, 3
			}
		}
		base := 30500
		mk := func(seq0, n int) []*pFrame {
			out := []*pFrame{}
			for i := 0; i < n; i++ {
				f := &pFrame{Seq: seq0 + i, TimeOnMS: timeOnFor(seq0 + i), FPATempCK: 30000, FPAFFCCK: 30000, Pix: newPix(cam.ResX, cam.ResY, uint16(base-i))}
				if i >= 3*fps && i < 3*fps+4 {
					bx, bw := 2+(i*3)%9, 3
					if prop == "C08" && seq0 > 0 {
						bx, bw = 1, 2 // columns 1 and 2: interior with edge-pixels 1, border with 3
					}
					for y := 4; y < 7; y++ {
						for x := bx; x < bx+bw; x++ {
							f.Pix[y][x] = uint16(base - i + jump)
						}
					}
				}
				out = append(out, f)
			}
			return out
		}
		frames1, frames2 := mk(0, 8*fps), mk(1000, 8*fps)
		c.Case(idx, func() interface{} {
			return map[string]interface{}{"camera_model": model, "fps": fps, "dynamic_threshold": dynamic, "first_connection_thermal_motion": fmt.Sprintf("%+v", cfg1.Motion), "second_connection_thermal_motion": fmt.Sprintf("%+v", cfg2.Motion),
				"scene": fmt.Sprintf("flat near %d, cooling by one count per frame, a block %d counts warmer for 4 frames", base, jump)}
		}, func() {
			r, err := prepareConn(scratch, cfg1, cam)
			if err != nil {
				c.Inconclusive("prepareConn: " + err.Error())
				return
			}
			defer r.cleanup()
			r.serve(pacedFeed(cam, frames1, 0), nil)
			if r.Err != io.EOF {
				c.Violation("connection-ended-abnormally", "first connection", fmt.Sprintf("handleConn returned %v", r.Err))
				return
			}
			first := decodeDir(r.OutDir)
			if len(first) != 1 {
				c.Inconclusive(fmt.Sprintf("the first connection made %d recordings, 1 expected", len(first)))
				return
			}
			// the operator edits [thermal-motion] (nothing else): no restart, the next connection reads it
			if err := ioutil.WriteFile(filepath.Join(r.ConfDir, "config.toml"), []byte(cfg2.toml(r.OutDir, filepath.Join(r.Dir, "frames.sock"))), 0644); err != nil {
				c.Inconclusive(err.Error())
				return
			}
			feed2 := pacedFeed(cam, frames2, 0)
			bareHeader := prop == "C11"
			if bareHeader {
				// the camera daemon was replaced by one that announces neither serial number nor
				// firmware: files of this connection carry none (not the previous camera's)
				specs := map[string]interface{}{headers.XResolution: cam.ResX, headers.YResolution: cam.ResY, headers.FrameSize: cam.FrameSize, headers.Model: cam.Model, headers.Brand: cam.Brand, headers.FPS: cam.FPS}
				hb, err := yamlv1.Marshal(specs)
				if err != nil {
					panic(err)
				}
				hb = append(hb, '\n')
				feed2 = func(w io.Writer) error {
					if _, err := w.Write(hb); err != nil {
						return err
					}
					for _, f := range frames2 {
						if _, err := w.Write(f.raw(cam)); err != nil {
							return err
						}
					}
					return nil
				}
			}
			r.serve(feed2, nil)
			if r.Err != io.EOF {
				c.Violation("connection-ended-abnormally", "second connection", fmt.Sprintf("handleConn returned %v", r.Err))
				return
			}
			var second []*decFile
			for _, d := range decodeDir(r.OutDir) {
				if sq := d.seqs(); len(sq) > 0 && sq[0] >= 1000 {
					second = append(second, d)
				}
			}
			if !dynamic {
				if len(second) != 0 {
					what := "delta-thresh was raised from 50 to 5000 before the second connection; a block 1000 counts warmer"
					if prop == "C08" {
						what = "edge-pixels was raised from 1 to 3 before the second connection; a warm block in columns 1-2, inside the new border,"
					}
					c.Violation("false-motion", "settings edited between connections", fmt.Sprintf("%s still started %d recording(s): %s", what, len(second), filesString(second)))
					return
				}
			} else {
				if len(second) != 1 {
					c.Inconclusive(fmt.Sprintf("the second connection made %d recordings, 1 expected", len(second)))
					return
				}
				var m map[string]interface{}
				if err := yamlv2.Unmarshal([]byte(second[0].Motion), &m); err != nil {
					c.Violation("header-motion-config", "", "motion config is not YAML: "+err.Error())
					return
				}
				if bareHeader {
					if first[0].Serial != int(cam.Serial) || first[0].Firmware != cam.Firmware {
						c.Violation("header-roundtrip", "first connection", fmt.Sprintf("camera serial %d firmware %q, file says serial %d firmware %q", cam.Serial, cam.Firmware, first[0].Serial, first[0].Firmware))
						return
					}
					if second[0].Serial != 0 || (second[0].Firmware != "" && second[0].Firmware != "<unknown>") { // (the file recorder writes "<unknown>" for an empty string)
						c.Violation("header-roundtrip", "second connection announces neither serial nor firmware", fmt.Sprintf("the second connection's header has no CameraSerial and no Firmware; its recording says serial %d firmware %q (the first connection's camera: serial %d firmware %q)", second[0].Serial, second[0].Firmware, cam.Serial, cam.Firmware))
						return
					}
					c.Count("connections_with_a_header_lacking_serial_and_firmware", 1)
				}
				thr, _ := m["triggeredthresh"].(int)
				if thr < base-8*fps-2 || fmt.Sprint(m["tempthreshmax"]) != "60000" {
					c.Violation("threshold-not-clamped-mean", "settings edited between connections", fmt.Sprintf("temp-thresh-max was lifted from 2500 to 60000 before the second connection (scene near %d): its recording stores threshold %d and tempthreshmax %v", base, thr, m["tempthreshmax"]))
					return
				}
			}
			c.Count("connections_after_a_thermal_motion_edit", 1)
			c.Nontrivial(vNewHash().U64(uint64(idx)).Bool(dynamic).Int(len(second)).Sum())
		})
	}
}
