//go:build verif
// +build verif

package main

// Reference pipeline used by the end-to-end oracles (C11, C13, C14, C17):
// RefDetector (fixed threshold, FFC-free) and RefRecorderFSM, written from
// the property statements; both were validated against the real components
// by the unit-tier checks (C07, C01-C04) before being relied on here.

import "fmt"

type refDet struct {
	m    pMotion
	w, h int
	hist [][][]uint16
}

func (r *refDet) Reset() { r.hist = nil }

func (r *refDet) clampT(v uint16) int {
	if int(v) < r.m.TempThresh {
		return r.m.TempThresh
	}
	return int(v)
}

func (r *refDet) diff(n, y, x int) int {
	if n == 0 {
		return 0
	}
	ref := n - r.m.FrameCompareGap
	if ref < 0 {
		ref = 0
	}
	d := r.clampT(r.hist[n][y][x]) - r.clampT(r.hist[ref][y][x])
	if d < 0 {
		if r.m.WarmerOnly {
			return 0
		}
		return -d
	}
	return d
}

func (r *refDet) Detect(pix [][]uint16) bool {
	r.hist = append(r.hist, pix)
	n := len(r.hist) - 1
	if n == 0 {
		return false
	}
	count := 0
	e := r.m.EdgePixels
	for y := e; y < r.h-e; y++ {
		for x := e; x < r.w-e; x++ {
			if r.diff(n, y, x) > r.m.DeltaThresh && (r.m.UseOneDiffOnly || r.diff(n-1, y, x) > r.m.DeltaThresh) {
				count++
			}
		}
	}
	return count >= r.m.CountThresh
}

type expRecording struct {
	Seqs    []int // frame sequence ids, in order
	Trigger int   // seq of the trigger frame
	Open    bool  // still open when the stream ended (no finished file expected)
	EndedBy string
}

// expectRecordings predicts the motion recordings of a fault-free run
// (window open, storage ok, no throttling) from the stream and the effective
// settings. frames must be in stream order; Clear/Bad entries are events.
func expectRecordings(cfg *pConfig, cam pCamera, frames []*pFrame) (recs []expRecording, motion []bool) {
	m := cfg.effectiveMotion(cam.Model)
	det := &refDet{m: m, w: cam.ResX, h: cam.ResY}
	capN := cfg.PreviewSecs*cam.FPS + m.TriggerFrames
	minF, maxF := cfg.MinSecs*cam.FPS, cfg.MaxSecs*cam.FPS
	var accSeq []int // accepted index -> seq
	run := 0
	var cur *expRecording
	t, L, lastEnd := 0, 0, -1
	closeRec := func(by string) {
		cur.EndedBy = by
		lastEnd = len(accSeq) - 1
		recs = append(recs, *cur)
		cur = nil
		run = 0
	}
	motion = make([]bool, len(frames))
	for fi, f := range frames {
		if f.Clear {
			if cur != nil {
				closeRec("clear")
			}
			det.Reset()
			continue
		}
		if f.Bad {
			if cur != nil {
				closeRec("bad frame")
			}
			continue
		}
		i := len(accSeq)
		accSeq = append(accSeq, f.Seq)
		mo := det.Detect(f.Pix)
		motion[fi] = mo
		if mo {
			run++
		} else {
			run = 0
		}
		if cur == nil && mo && run >= m.TriggerFrames {
			first := i - capN + 1
			if first < lastEnd+1 {
				first = lastEnd + 1
			}
			if first < 0 {
				first = 0
			}
			cur = &expRecording{Trigger: f.Seq}
			for k := first; k <= i; k++ {
				cur.Seqs = append(cur.Seqs, accSeq[k])
			}
			t, L = i, i
		} else if cur != nil {
			cur.Seqs = append(cur.Seqs, f.Seq)
			if mo {
				L = i
			}
		}
		if cur != nil {
			limit := L - t + minF
			if limit > maxF {
				limit = maxF
			}
			if limit < 1 {
				limit = 1
			}
			if i-t+1 >= limit {
				closeRec("limit")
			}
		}
	}
	if cur != nil {
		cur.Open = true
		recs = append(recs, *cur)
	}
	return
}

// expectContinuous predicts the finished continuous-recorder files.
func expectContinuous(cfg *pConfig, cam pCamera, frames []*pFrame) [][]int {
	M := cfg.MaxSecs * cam.FPS
	var out [][]int
	var cur []int
	for _, f := range frames {
		if f.Clear {
			continue
		}
		if f.Bad {
			if len(cur) > 0 {
				out = append(out, cur) // closed (and renamed) by the error path
				cur = nil
			}
			continue
		}
		cur = append(cur, f.Seq)
		if len(cur) == M+1 {
			out = append(out, cur)
			cur = nil
		}
	}
	return out
}

func intsEqual(a, b []int) bool {
	if len(a) != len(b) {
		return false
	}
	for i := range a {
		if a[i] != b[i] {
			return false
		}
	}
	return true
}

func describeRecs(recs []expRecording) string {
	s := ""
	for _, r := range recs {
		s += fmt.Sprintf("%s(trigger %d, %s, open=%v) ", seqsString(r.Seqs), r.Trigger, r.EndedBy, r.Open)
	}
	return s
}
