//go:build verif
// +build verif

package main

// C14 - both daemons agree on the 'clear' marker and the header keys: this
// side reports what cmd/leptond is compiled with; the driver compares it with
// what cmd/thermal-recorder reports (a runtime observation of both binaries).

import (
	"sort"
	"strings"
	"testing"

	"github.com/TheCacophonyProject/lepton3"
	"github.com/TheCacophonyProject/thermal-recorder/headers"
)

func TestVerif_C14Agree(t *testing.T) {
	c := vStart(t, "C14", "TestVerif_C14Agree")
	defer c.Finish()
	if c.Shard != 0 {
		return
	}
	c.Case(0, func() interface{} { return "constants compiled into cmd/leptond" }, func() {
		keys := []string{headers.XResolution, headers.YResolution, headers.FrameSize, headers.Model, headers.Brand, headers.FPS, headers.Serial, headers.Firmware}
		sort.Strings(keys)
		c.Note("agree:clear_marker", clearBuffer)
		c.Note("agree:header_keys", strings.Join(keys, ","))
		c.Note("agree:lepton_frame_bytes", lepton3.BytesPerFrame)
		c.Count("constant_sets_reported", 1)
		c.Nontrivial(vNewHash().Str(clearBuffer).Str(strings.Join(keys, ",")).Sum())
	})
}
