//go:build verif
// +build verif

package loglimiter

// C20 - log limiter drops only exact repeats inside the interval.
// Shadow two-variable model run online against the real LogLimiter with an
// injected clock and captured log output.

import (
	"bytes"
	"fmt"
	"log"
	"strings"
	"testing"
	"time"
	"unsafe"
)

const c20Interval = time.Minute

var c20Msgs = []string{"a", "b", ""}
var c20Deltas = []time.Duration{0, 1, c20Interval - 1, c20Interval, c20Interval + 1, 3 * c20Interval}

type c20Step struct {
	Msg   string
	Delta time.Duration
	API   int // 0 Print, 1 Printf("%s"), 2 Printf(msg-with-verbs, args)
	// WallStep (whole seconds): the system's wall clock is set forward/back by this much just
	// before the step; elapsed time is not affected (readings taken from time.Now only)
	WallStep time.Duration
}

// c20TimeRepr mirrors the layout of time.Time (wall, ext, loc; unchanged since Go 1.9).
type c20TimeRepr struct {
	wall uint64
	ext  int64
	loc  *time.Location
}

// c20ShiftWall returns the reading the kernel hands out after the wall clock was stepped by d
// since t's clock was read: same monotonic part, wall seconds moved.
func c20ShiftWall(t time.Time, d time.Duration) time.Time {
	if d == 0 {
		return t
	}
	r := (*c20TimeRepr)(unsafe.Pointer(&t))
	if r.wall&(1<<63) == 0 {
		return t.Add(d)
	}
	secs := int64(r.wall<<1>>31) + int64(d/time.Second)
	r.wall = r.wall&^(uint64(1<<33-1)<<30) | uint64(secs)<<30
	return t
}

type c20Shadow struct {
	has      bool
	last     string
	lastTime time.Time
}

// expect returns whether the message must be printed, and updates the model.
func (s *c20Shadow) expect(m string, now time.Time, interval time.Duration) bool {
	if s.has && m == s.last && now.Sub(s.lastTime) < interval {
		return false
	}
	s.has, s.last, s.lastTime = true, m, now
	return true
}

func c20Line(m string) string {
	if len(m) == 0 || m[len(m)-1] != '\n' {
		return m + "\n"
	}
	return m
}

// runC20 drives the real limiter; returns (#printed, #suppressed, violation kind, detail).
func runC20(steps []c20Step, interval time.Duration, start time.Time) (int, int, string, string) {
	var buf bytes.Buffer
	log.SetOutput(&buf)
	log.SetFlags(0)
	now := start
	var wall time.Duration
	lim := New(interval)
	lim.nowFunc = func() time.Time { return c20ShiftWall(now, wall) }
	sh := &c20Shadow{}
	printed, suppressed := 0, 0
	for i, st := range steps {
		now = now.Add(st.Delta)
		wall += st.WallStep
		buf.Reset()
		msg := st.Msg
		switch st.API {
		case 0:
			lim.Print(msg)
		case 1:
			lim.Printf("%s", msg)
		default:
			lim.Printf("%s|%d%%", msg, i%3)
			msg = fmt.Sprintf("%s|%d%%", msg, i%3)
		}
		want := sh.expect(msg, now, interval)
		got := buf.String()
		if want {
			printed++
			if got == "" {
				return printed, suppressed, "lost-message", fmt.Sprintf("step %d: message %q at +%v was suppressed but is not a repeat of the last printed line inside the interval", i, msg, st.Delta)
			}
			if got != c20Line(msg) {
				return printed, suppressed, "modified-message", fmt.Sprintf("step %d: printed %q for message %q", i, got, msg)
			}
		} else {
			suppressed++
			if got != "" {
				return printed, suppressed, "repeat-not-suppressed", fmt.Sprintf("step %d: repeat %q %v after its last print was printed again (%q)", i, msg, now.Sub(sh.lastTime), got)
			}
		}
	}
	return printed, suppressed, "", ""
}

func c20Desc(steps []c20Step) func() interface{} {
	return func() interface{} {
		out := []string{}
		for i, s := range steps {
			if i >= 60 {
				out = append(out, fmt.Sprintf("… %d more", len(steps)-i))
				break
			}
			out = append(out, fmt.Sprintf("+%v api%d %q", s.Delta, s.API, s.Msg))
		}
		return map[string]interface{}{"interval": c20Interval.String(), "steps": out}
	}
}

func TestVerif_C20(t *testing.T) {
	c := vStart(t, "C20", "TestVerif_C20")
	defer c.Finish()
	defer log.SetOutput(new(bytes.Buffer))
	start := time.Date(2021, 3, 4, 23, 59, 30, 0, time.UTC)
	idx := int64(0)
	alpha := len(c20Msgs) * len(c20Deltas)
	maxLen := int(c.N(5, 6))
	// exhaustive: every sequence of length 1..maxLen over (message, delta)
	for L := 1; L <= maxLen; L++ {
		total := int64(1)
		for i := 0; i < L; i++ {
			total *= int64(alpha)
		}
		steps := make([]c20Step, L)
		for n := int64(0); n < total; n++ {
			myIdx := idx
			idx++
			if !c.Mine(myIdx) {
				continue
			}
			x := n
			apiMode := int(myIdx % 4)
			for i := 0; i < L; i++ {
				d := int(x % int64(alpha))
				x /= int64(alpha)
				api := 0
				switch apiMode {
				case 1:
					api = 1
				case 2:
					api = i % 2
				case 3:
					api = 2
				}
				steps[i] = c20Step{Msg: c20Msgs[d%len(c20Msgs)], Delta: c20Deltas[d/len(c20Msgs)], API: api}
			}
			c.Case(myIdx, c20Desc(steps), func() {
				p, s, kind, detail := runC20(steps, c20Interval, start)
				if kind != "" {
					c.Violation(kind, "exhaustive", detail)
				}
				c.Count("messages", int64(L))
				c.Count("printed", int64(p))
				c.Count("suppressed", int64(s))
				if s > 0 {
					c.Nontrivial(vNewHash().Int(L).U64(uint64(n)).Int(apiMode).Sum())
				}
				if s > 0 && L == maxLen {
					c.Sample("exhaustive", c20Desc(steps))
				}
			})
		}
	}
	c.SetExhaustive(true)
	// random long sequences with hostile messages
	// long messages that differ only near their end (a frame-size mismatch names both sizes at
	// the end of a long line), or only in length
	long := strings.Repeat("frame rejected by the parser: expected a different size; ", 5)
	hostile := []string{"a", long + "39040 != 38400", "b", long + "39040 != 38401", "", "100%", "%d %s %v", "line\n", "two\nlines", "a ", " a", "ａ", "a\x00", long, long + " "}
	nrand := c.N(300, 100000)
	for s := int64(0); s < nrand; s++ {
		myIdx := idx
		idx++
		if !c.Mine(myIdx) {
			continue
		}
		rng := c.RNG(myIdx)
		n := rng.Range(10, 10000)
		nm := rng.Range(1, 4)
		steps := make([]c20Step, n)
		longGaps := 0
		for i := range steps {
			var d time.Duration
			switch rng.Intn(7) {
			case 6:
				// long quiet periods: elapsed times around 2^31 and 2^32 ms (24.9 and 49.7 days)
				// and beyond, where a narrowed elapsed-time computation wraps
				ms := time.Millisecond
				d = []time.Duration{1<<31*ms - ms, 1 << 31 * ms, 1<<31*ms + ms, 1<<31*ms + 30*time.Second, 1 << 32 * ms, 1<<32*ms + 30*time.Second, 25 * 24 * time.Hour, 60 * 24 * time.Hour, 3 * 365 * 24 * time.Hour}[rng.Intn(9)]
				longGaps++
			case 0:
				d = 0
			case 1:
				d = time.Duration(rng.Intn(int(time.Second)))
			case 2:
				d = c20Interval - time.Duration(rng.Intn(3))
			case 3:
				d = c20Interval + time.Duration(rng.Intn(3))
			case 4:
				d = time.Duration(rng.U64() % uint64(2*c20Interval))
			default:
				d = time.Second / 9
			}
			api := rng.Intn(3)
			m := hostile[rng.Intn(nm+1)%len(hostile)]
			if rng.Chance(5) {
				m = hostile[rng.Intn(len(hostile))]
			}
			steps[i] = c20Step{Msg: m, Delta: d, API: api}
		}
		c.Case(myIdx, c20Desc(steps), func() {
			p, sp, kind, detail := runC20(steps, c20Interval, start)
			if kind != "" {
				c.Violation(kind, "random", detail)
			}
			c.Count("messages", int64(n))
			c.Count("printed", int64(p))
			c.Count("suppressed", int64(sp))
			c.Count("quiet_periods_of_weeks", int64(longGaps))
			if sp > 0 {
				c.Nontrivial(vNewHash().U64(uint64(myIdx)).Int(n).Int(p).Sum())
			}
		})
	}
	// wall-clock steps (NTP sync, date -s on a Pi without RTC) between occurrences of a recurring
	// message: the interval is elapsed time. Readings come from the real clock (they carry a
	// monotonic part, as in production); only their wall part is rewritten.
	nstep := c.N(200, 20000)
	for s := int64(0); s < nstep; s++ {
		myIdx := idx
		idx++
		if !c.Mine(myIdx) {
			continue
		}
		rng := c.RNG(myIdx)
		n := rng.Range(10, 400)
		steps := make([]c20Step, n)
		nsteps := 0
		for i := range steps {
			d := []time.Duration{0, time.Second, c20Interval - time.Second, c20Interval, c20Interval + time.Second, 10 * time.Second}[rng.Intn(6)]
			steps[i] = c20Step{Msg: []string{"disk full", "disk full", "disk full", "other"}[rng.Intn(4)], Delta: d, API: rng.Intn(3)}
			if rng.Chance(20) {
				steps[i].WallStep = []time.Duration{time.Second, -time.Second, 59 * time.Second, -61 * time.Second, time.Hour, -time.Hour, 40 * 24 * time.Hour, -40 * 24 * time.Hour, -400 * 24 * time.Hour}[rng.Intn(9)]
				nsteps++
			}
		}
		c.Case(myIdx, c20Desc(steps), func() {
			p, sp, kind, detail := runC20(steps, c20Interval, time.Now())
			if kind != "" {
				c.Violation(kind, "wall-clock steps", detail)
			}
			c.Count("messages", int64(n))
			c.Count("printed", int64(p))
			c.Count("suppressed", int64(sp))
			c.Count("wall_clock_steps", int64(nsteps))
			if sp > 0 {
				c.Nontrivial(vNewHash().U64(uint64(myIdx)).Int(n).Int(p).Sum())
			}
		})
	}
}
