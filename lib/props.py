"""Tables for the check driver: repository packages that receive harnesses and
the jobs (monitor workloads) that decide each property."""

GOCPTV = "/root/go/pkg/mod/github.com/!the!cacophony!project/go-cptv@v0.0.0-20211109233846-8c32a5d161f7"

PKGS = {
    "motion": {"dir": "motion", "name": "motion", "harness": "motion", "templates": ["kit"]},
    "throttle": {"dir": "throttle", "name": "throttle", "harness": "throttle", "templates": ["kit"]},
    "loglimiter": {"dir": "loglimiter", "name": "loglimiter", "harness": "loglimiter", "templates": ["kit"]},
    "headers": {"dir": "headers", "name": "headers", "harness": "headers", "templates": ["kit"]},
    "recorder-main": {"dir": "cmd/thermal-recorder", "name": "main", "harness": "recorder-main", "templates": ["kit"]},
    # same package, but go-cptv's file writer is overlaid with a copy that calls
    # cptv.VerifHook between its file-system steps (crash points inside the dependency)
    "recorder-main-dephooks": {"dir": "cmd/thermal-recorder", "name": "main", "harness": "recorder-main", "templates": ["kit"], "tags": "verif verifdep",
                               "dep_patches": [
                                   {"file": GOCPTV + "/filewriter.go", "edits": [
                                       ("\tf, err := os.Create(filename)\n\tif err != nil {\n\t\treturn nil, err\n\t}\n\tw, err := NewWriter(filename, c)",
                                        "\tf, err := os.Create(filename)\n\tif err != nil {\n\t\treturn nil, err\n\t}\n\tverifDepHook(\"cptv.create.first\")\n\tw, err := NewWriter(filename, c)"),
                                   ]},
                                   {"file": GOCPTV + "/writer.go", "edits": [
                                       ("\ntype DualWriter interface {", "\n// VerifHook is set by the verification harness (overlay build only).\nvar VerifHook func(string)\n\nfunc verifDepHook(n string) {\n\tif h := VerifHook; h != nil {\n\t\th(n)\n\t}\n}\n\ntype DualWriter interface {"),
                                       ("\tcompressedF, err := os.Create(filename)\n", "\tverifDepHook(\"cptv.create.scratch\")\n\tcompressedF, err := os.Create(filename)\n"),
                                       ("\tw.fileWriter.FlushTemp()\n\n\tfields := NewFieldWriter()", "\tw.fileWriter.FlushTemp()\n\tverifDepHook(\"cptv.close.flushed\")\n\n\tfields := NewFieldWriter()"),
                                       ("\tcw := w.fileWriter.CompressedWriter()\n", "\tverifDepHook(\"cptv.close.patched\")\n\tcw := w.fileWriter.CompressedWriter()\n"),
                                       ("\tcompressor.Flush()\n", "\tverifDepHook(\"cptv.close.copied\")\n\tcompressor.Flush()\n\tverifDepHook(\"cptv.close.gzflushed\")\n"),
                                       ("\tcw.Flush()\n\treturn w.fileWriter.CloseCompressed()", "\tverifDepHook(\"cptv.close.gzclosed\")\n\tcw.Flush()\n\tverifDepHook(\"cptv.close.written\")\n\treturn w.fileWriter.CloseCompressed()"),
                                       ("\tw.fileWriter.CloseTemp()\n\treturn w.fileWriter.DeleteTemp()", "\tverifDepHook(\"cptv.close.compressed\")\n\tw.fileWriter.CloseTemp()\n\tverifDepHook(\"cptv.close.scratchclosed\")\n\treturn w.fileWriter.DeleteTemp()"),
                                   ]},
                               ]},
    "leptond-main": {"dir": "cmd/leptond", "name": "main", "harness": "leptond-main", "templates": ["kit"]},
    # same package built with the one-minute file rotation constant shortened to 2 s (a generated
    # copy of the working tree's main.go that differs in that constant only), so that rotation is
    # crossed within seconds
    "writer-main-fastrotate": {"dir": "cmd/thermal-writer", "name": "main", "harness": "writer-main", "templates": ["kit"],
                               "src_patches": [{"file": "{REPO}/cmd/thermal-writer/main.go",
                                                "edits": [("re", r"\bnewFileInterval(\s*)=(\s*)time\.Minute\b", r"newFileInterval\1=\g<2>2 * time.Second")]}]},
    "writer-main": {"dir": "cmd/thermal-writer", "name": "main", "harness": "writer-main", "templates": ["kit"]},
}

COMMON_ASSUME = [
    "the monitors observe executions of the real code built from /repo's working tree; nothing outside the executed cases is claimed",
    "pinned dependencies (go-cptv, lepton3, go-config, window, juju/ratelimit, yaml) behave as in the module cache",
]

FSM_RULE = ("Real MotionProcessor fed by a scripted parser; cases: (1) ~330 configs (fps 1-3, preview 0-2, trigger 0-3, 0<=min<=max<=3) x all motion bit-strings of length 11 (thorough 16); "
            "(2) same configs x all strings of length 7 (thorough 10) x one disturbance {window closed, disk check fails, file creation fails, bad frame, reset} at every position; "
            "(3) seeded random scripts (50-2000 events, fps<=9, preview<=5, max<=12s, realistic 3/20 and 10/600 settings) with bad frames, resets and refusals, every fifth one additionally with failing post-trigger WriteFrame calls (5/30/100 %) and failing StopRecording calls (half that rate); (4) trigger-position sweep for cap 1..24.")
FSM_ASSUME = COMMON_ASSUME + ["the driver aims at motion with a toggling hot pixel, but oracles take the observed MotionDetected callbacks as input"]
FSM_JOB = {"pkg": "motion", "test": "TestVerif_FSM", "shards": (16, 16), "timeout": (300, 3000), "require": ["recordings", "motion_frames_observed", "post_trigger_write_faults", "stop_faults", "scripts_with_non_increasing_time_on", "scripts_with_non_unique_frame_counter", "scripts_with_ffc_events", "scripts_with_continuous_recorder"]}

TH_RULE = ("Real ThrottledRecorder (NewThrottledRecorderWithClock, fake clock) between a scripted caller and a monitor sink. Cases: (1) seeded random schedules from (Start Write* Stop)* with 5..6000 ops, "
           "bucket 1-60 s (and the shipped 600 s), refill 1 s..1 h, min+preview 1-20 s, fps 1-9, wrapped-start failure rate 0/10/40 %; (2) wrapped start failing at call index 0..11; "
           "(3) schedules constructed to stay within budget; (4) composition with the real MotionProcessor.")
TH_JOB = {"pkg": "throttle", "test": "TestVerif_Throttle", "shards": (16, 16), "timeout": (300, 2400), "require": ["forwarded_writes", "cuts", "suppressed_starts", "within_budget_schedules", "composition_runs", "schedules_with_start_failures"]}

PROPS = {
    "C01": {
        "title": "Each motion recording is a gap-free, duplicate-free, in-order run of the stream",
        "level": "exploration",
        "rule": FSM_RULE + " Oracle C01: inside every motion-sink recording accepted indices are consecutive, no frame appears in two recordings, recordings do not overlap, "
                "and a re-trigger within pre-trigger reach starts exactly at previous-last+1. Non-trivial = at least one recording; distinct by (config, sink-trace hash).",
        "assumptions": FSM_ASSUME,
        "level_text": "Offline trace checker over the real MotionProcessor's calls on a monitor sink, for all motion bit-strings up to length 11 (thorough 16) on ~330 small configurations, every single-disturbance placement (refused start, bad frame, reset) on shorter strings, a trigger-position sweep for ring capacities 1..24 and long random scripts. Exhaustive small scope + sampling; nothing is proved.",
        "level_note": "Frame identity is carried in Status.FrameCount by the harness parser; write/stop faults are excluded here by the property's quantifier (C12 covers them).",
        "technique": "offline trace checker on monitor sinks (exhaustive small scope + random scripts)",
        "jobs": [dict(FSM_JOB),
                 {"pkg": "recorder-main", "test": "TestVerif_C01Pipe", "shards": (8, 16), "timeout": (300, 1800), "require": ["pipeline_connections", "motion_files", "throttled_connections", "test_recordings_overlapping_a_motion_recording"]},
                 {"pkg": "throttle", "test": "TestVerif_ThrottleComposition", "shards": (16, 16), "timeout": (300, 2400), "require": ["composition_runs", "base_starts_checked", "mid_trigger_restarts"]}],
    },
    "C02": {
        "title": "Pre-trigger buffering: recordings start a full preview before the trigger",
        "level": "exploration",
        "rule": FSM_RULE + " Oracle C02: first written frame of a recording triggered at accepted index t is max(t-(cap-1), previous-end+1, 0), the writes of the trigger step are consecutive and end with t. "
                "Non-trivial = at least one recording; distinct by (config, sink-trace hash).",
        "assumptions": FSM_ASSUME,
        "level_text": "Closed-form oracle for the first frame of every recording, evaluated on the same exhaustive-small-scope and random workloads as C01 plus a sweep placing the trigger at every position 0..3*cap+2 after start-up and after a previous stop for every cap 1..24 in several (preview, fps, trigger-frames) factorizations.",
        "level_note": "cap = preview-secs*fps + trigger-frames; the ring is not cleared by resets or bad frames (the property counts accepted frames).",
        "technique": "closed-form trace oracle on monitor sinks (exhaustive small scope + sweeps)",
        "jobs": [dict(FSM_JOB),
                 {"pkg": "recorder-main", "test": "TestVerif_C01Pipe", "shards": (8, 16), "timeout": (300, 1800), "require": ["pipeline_connections", "motion_files", "throttled_connections", "test_recordings_overlapping_a_motion_recording"]},
                 {"pkg": "throttle", "test": "TestVerif_ThrottleComposition", "shards": (16, 16), "timeout": (300, 2400), "require": ["composition_runs", "base_starts_checked", "mid_trigger_restarts"]},
                 {"pkg": "recorder-main", "test": "TestVerif_C11Warmup", "shards": (8, 16), "timeout": (300, 1200), "require": ["test_recordings_during_the_ffc_period"]}],
    },
    "C03": {
        "title": "Recording length: min-secs past the last motion, never more than max-secs",
        "level": "exploration",
        "rule": FSM_RULE + " Oracle C03: a recording triggered at t ends exactly at the first frame e with e-t+1 >= max(1, min(L(e)-t+minF, maxF)), L = latest observed motion callback; cut exactly at a bad frame/reset. A recording whose pre-trigger path met a storage write failure is judged from above only (it may be given up early, never run longer than the rule allows). "
                "Non-trivial = at least one recording; distinct by (config, sink-trace hash).",
        "assumptions": FSM_ASSUME,
        "level_text": "Declarative end-of-recording formula evaluated against the observed MotionDetected callbacks and the sink trace; exhaustive motion patterns (every offset, the frame at the cap, min=0, max=min) for min,max<=3s x fps<=3, plus random scripts with realistic settings (3/20/9, 10/600/9).",
        "level_note": "Motion bits are the observed listener callbacks, so the oracle is decoupled from the detector.",
        "technique": "declarative trace oracle on monitor sinks + listener callbacks",
        "jobs": [dict(FSM_JOB, require=FSM_JOB["require"] + ["recordings_with_pre_trigger_write_fault", "pre_trigger_fault_in_a_later_recording", "stalled_streams"]),
                 {"pkg": "recorder-main", "test": "TestVerif_C01Pipe", "shards": (8, 16), "timeout": (300, 1800), "require": ["pipeline_connections", "motion_files", "connections_with_single_frame_recordings"]}],
    },
    "C04": {
        "title": "A recording starts iff motion persisted, the window is open and storage is OK",
        "level": "exploration",
        "rule": FSM_RULE + " Oracle C04 (online): successful StartRecording at accepted frame i <=> idle and motion(i) and run(i) >= trigger-frames and window open and CheckCanRecord ok and StartRecording ok. "
                "A second job drives the real window.Window with a virtual clock across boundaries/midnight. Non-trivial = at least one recording or refused start; distinct by (config, trace hash).",
        "assumptions": FSM_ASSUME + ["window boundaries: start inclusive, stop exclusive; self-tested against window.Active() for all 1440 minutes +-1ns"],
        "level_text": "Start-iff monitor over scripted gate outcomes (window via the real window.Window with an injected clock, disk check and file creation via the monitor sink) for all motion strings x every single refusal placement, random multi-refusal scripts, and a dedicated window-clock job (absolute windows incl. midnight wrap and exact boundary instants).",
        "level_note": "Sunrise/sunset-relative windows are exercised only through Active()'s boolean; the CPTVFileRecorder disk check is covered by the pipeline job.",
        "technique": "online start-iff monitor with scripted gates and injected window clock",
        "jobs": [dict(FSM_JOB, require=FSM_JOB["require"] + ["long_refused_runs"]),
                 {"pkg": "motion", "test": "TestVerif_C04Window", "shards": (8, 16), "timeout": (300, 1800), "require": ["window_runs", "motion_frames_outside_window", "frames_at_exact_boundary", "windows_spanning_midnight", "recordings"]},
                 {"pkg": "recorder-main", "test": "TestVerif_C04Pipe", "shards": (6, 6), "timeout": (300, 900), "require": ["pipeline_gate_runs", "pipeline_motion_files", "runs_with_disk_check_disabled"]},
                 {"pkg": "recorder-main", "test": "TestVerif_C04Bursts", "shards": (8, 16), "timeout": (300, 1200), "require": ["burst_connections", "bursts_recorded"]},
                 {"pkg": "recorder-main", "test": "TestVerif_C04Relink", "shards": (2, 2), "timeout": (300, 600)},
                 {"pkg": "recorder-main", "test": "TestVerif_C04PipeRetry", "shards": (8, 16), "timeout": (300, 900), "require": ["pipeline_retry_runs"]},
                 {"pkg": "throttle", "test": "TestVerif_ThrottleComposition", "shards": (16, 16), "timeout": (300, 2400), "require": ["composition_runs", "base_starts_checked", "mid_trigger_restarts", "base_start_failures", "runs_with_disk_low_windows"]}],
    },
    "C05": {
        "title": "Throttling bounds recorded frames by the token bucket in every time interval",
        "level": "exploration",
        "rule": TH_RULE + " Oracle C05: for every pair of forwarded writes i<=j (virtual timestamps): j-i+1 <= B + 1.01*r*(tj-ti) + 2 (O(n) running-minimum form of all pairs). "
                "Non-trivial = schedule with at least one cut or suppressed start; distinct by (config, timestamped base trace).",
        "assumptions": COMMON_ASSUME + ["virtual time only (injected ratelimit.Clock); tolerance = the property's 1% rate margin + 2 frames"],
        "level_text": "Offline checker over the timestamped trace on the wrapped recorder for seeded caller schedules (idle-then-burst, churn at the refill boundary, continuous writing for several buckets, one-frame recordings, clock advances from 0/1ns/one tick +-1ns to 40 days) and for the composition real MotionProcessor -> real ThrottledRecorder under continuous and random motion; the largest observed excess over B + 1.01 r dt is reported.",
        "level_note": "main.go's wiring of the throttle (real clock) is checked one-sidedly by the pipeline job. The clock-step job keeps the clock the production constructor installs and rewrites only the wall part of its readings (what the kernel reports after NTP/date -s steps); its bound is evaluated on monotonic timestamps taken around every call (pre <= bucket reading <= post), so load can only loosen it.",
        "technique": "offline interval-bound checker on a timestamped event log (injected clock; production clock with emulated wall-clock steps)",
        "jobs": [dict(TH_JOB, require=TH_JOB["require"] + ["schedules_with_write_failures"]),
                 {"pkg": "throttle", "test": "TestVerif_C05ClockStep", "shards": (8, 16), "timeout": (300, 1800), "require": ["clock_step_runs", "clock_steps_forward", "clock_steps_backward", "runs_with_dry_bucket", "forwarded_writes"]},
                 {"pkg": "recorder-main", "test": "TestVerif_C05Pipe", "shards": (8, 16), "timeout": (600, 2400), "require": ["pipeline_runs", "frames_recorded_throttled", "throttled_files", "throttle_cut_files", "runs_with_continuous_recorder", "runs_after_a_camera_with_another_fps", "runs_with_default_min_refill"]},
                 {"pkg": "throttle", "test": "TestVerif_ThrottleComposition", "shards": (16, 16), "timeout": (300, 2400), "require": ["composition_runs", "base_starts_checked", "mid_trigger_restarts", "base_start_failures", "runs_with_disk_low_windows"]}],
    },
    "C06": {
        "title": "Throttle: transparent within budget, clean cuts, restarts only with a full clip",
        "level": "exploration",
        "rule": TH_RULE + " Oracle C06 (online, per caller op, with the tokens available read in-package at the same virtual instant): start forwarded unchanged iff A >= minLen else exactly one event; "
                "write forwarded iff open and A >= 1, else one event + one Stop; restart (remembered background/threshold) iff A >= minLen; stop forwarded iff open; cut files hold >= minLen frames; "
                "events == suppressed starts + cuts; wrapped start errors surface and leave the throttle closed; pairing automaton on the whole base trace; "
                "constructed within-budget schedules must be forwarded verbatim with no event. Non-trivial = schedule with at least one cut or suppressed start.",
        "assumptions": COMMON_ASSUME + ["reading bucket.Available() immediately before an operation at the same virtual instant is idempotent (the library recomputes the same value)",
                                        "the D-Bus ThrottledEventRecorder is observable only with a bus; the listener interface is monitored instead"],
        "level_text": "Online per-operation monitor + offline pairing automaton + derived-quantity checks over seeded schedules, with the wrapped recorder's StartRecording failing at random calls and at every call index 0..11.",
        "level_note": "min-secs+preview-secs >= 1 (refill > 0) as the property requires.",
        "technique": "online per-operation monitor + pairing automaton on the wrapped recorder",
        "jobs": [dict(TH_JOB),
                 {"pkg": "throttle", "test": "TestVerif_C06Production", "shards": (8, 16), "timeout": (300, 1200), "require": ["production_constructor_runs", "notifications_checked"]},
                 {"pkg": "recorder-main", "test": "TestVerif_Daemon", "daemon": True, "shards": (1, 1), "timeout": (300, 600)},
                 {"pkg": "recorder-main", "test": "TestVerif_C05Pipe", "shards": (8, 16), "timeout": (600, 2400), "require": ["pipeline_runs", "throttled_files", "throttle_cut_files", "runs_with_continuous_recorder", "runs_after_a_camera_with_another_fps", "runs_with_default_min_refill"]},
                 {"pkg": "throttle", "test": "TestVerif_ThrottleComposition", "shards": (16, 16), "timeout": (300, 2400), "require": ["composition_runs", "base_starts_checked", "mid_trigger_restarts", "base_start_failures", "runs_with_disk_low_windows"]}],
    },
    "C07": {
        "title": "Motion is reported exactly per the configured thresholds (fixed threshold)",
        "level": "exploration",
        "rule": "Seeded FFC-free streams (1..3*gap+5 frames, resets at random positions) on random configurations: resolution 4x4..12x10 (every 50th case 160x120), edge 0-3, gap {1,2,3,5,45}, "
                "count-thresh {1,2,3,interior,interior+1}, delta {0,1,30,200,65534}, temp-thresh {0,3000,28000,65535}, full warmer x one-diff matrix; pixel values drawn from a palette at the "
                "temp/delta boundaries and extremes, number of changed pixels biased to count-thresh-1/count-thresh/+1. Even cases call Detect() in-package, odd cases the public MotionProcessor + MotionDetected callback. "
                "RefDetector (whole history, no rings) decides every frame. Non-trivial = stream with at least one motion frame; distinct by (config, pixels, verdicts).",
        "assumptions": COMMON_ASSUME + ["RefDetector (harness/motion/det_common_test.go) is the specification", "all frames carry TimeOn-LastFFCTime >= 10 s"],
        "level_text": "Reference-model monitor in lock-step with the real detector over boundary-biased random streams and the full mode matrix; judged per frame on the boolean verdict (the changed-pixel count is internal).",
        "level_note": "Pixel/threshold boundary cases are targeted by the generator, not enumerated.",
        "technique": "reference-model runtime monitor (lock-step differential)",
        "jobs": [{"pkg": "motion", "test": "TestVerif_C07", "shards": (16, 16), "timeout": (300, 2400), "require": ["frames", "motion_frames", "frames_at_count_boundary", "streams_via_processor_api", "streams_via_detect", "blinking_blob_streams", "boson_sized_streams"]},
                 {"pkg": "motion", "test": "TestVerif_C07Config", "shards": (8, 16), "timeout": (300, 1800), "require": ["configs_loaded", "configs_with_wide_border"]},
                 {"pkg": "recorder-main", "test": "TestVerif_ConfigReread", "shards": (6, 12), "timeout": (300, 1200), "require": ["connections_after_a_thermal_motion_edit"]}],
    },
    "C08": {
        "title": "Edge-border pixels and sub-threshold (cold) pixels never influence detection",
        "level": "exploration",
        "rule": "Pairs of streams run through two real MotionProcessors in lock-step: base stream (moving hot block with FFC events and resets, or boundary-biased random) and a variant that differs only in border pixels "
                "(random/extreme/zero values; fixed and dynamic threshold) or only in pixels <= temp-thresh in both (fixed threshold). Compared: per-frame MotionDetected, motion-sink trace incl. trigger threshold, "
                "and (dynamic) interior background and threshold after every frame. Second job: the C14 pipeline workload (real parsers and handleConn; frames carry random border values incl. zeros on the top and bottom border rows): recordings must equal the reference pipeline's prediction, which ignores the border. Non-trivial = pair with varied pixels and at least one motion frame.",
        "assumptions": COMMON_ASSUME,
        "level_text": "Paired-execution comparator over seeded stream pairs; any divergence in detection, recording boundaries, interior background or dynamic threshold is a violation.",
        "level_note": "edge-pixels = 0 makes the border variant vacuous (only the sub-threshold variant runs there).",
        "technique": "paired-execution comparator",
        "jobs": [{"pkg": "motion", "test": "TestVerif_C08", "shards": (16, 16), "timeout": (300, 2400), "require": ["pairs_border", "pairs_sub-threshold", "motion_frames", "recordings", "pixels_varied", "blinking_blob_pairs"]},
                 {"pkg": "recorder-main", "test": "TestVerif_ConfigReread", "shards": (6, 12), "timeout": (300, 1200), "require": ["connections_after_a_thermal_motion_edit"]},
                 {"pkg": "recorder-main", "test": "TestVerif_C14Pipe", "race": True, "shards": (16, 16), "timeout": (600, 3000), "require": ["connections", "frames_verified_in_storage", "motion_files"]}],
    },
    "C09": {
        "title": "No detection during/after FFC; no comparison across an FFC or camera reset",
        "level": "exploration",
        "rule": "History pairs P.F.S / P'.F.S on two real detectors (every third case through the public MotionProcessor API): P, P' of equal length and telemetry but different pixels "
                "(or, for resets, different lengths ending in >= 2 unaffected frames); F.S common, starting with an FFC-affected frame (fixed and dynamic threshold) or a reset (fixed threshold). "
                "FFC events at random positions, irregular TimeOn steps (period lengths 1..90 frames), power-on and negative ages, back-to-back FFCs, gap {1,2,3,5,45}. "
                "One case in 16 is a crafted dynamic-threshold pair in which only prefix A builds up per-pixel background weights and the scene warms slowly after the FFC. "
                "Oracles: (a) no motion on an affected frame or the frame directly after one; (b) verdicts on F.S identical in both runs. Non-trivial = pair with motion after the period.",
        "assumptions": COMMON_ASSUME + ["FFC period = 10 s as in the property"],
        "level_text": "Online suppression assertion on telemetry vs callback plus a paired-history comparator deciding independence from pre-FFC / pre-reset content.",
        "level_note": "Frames inside the FFC period may legitimately serve as comparison frames afterwards; only frames from before it are excluded by the property.",
        "technique": "online assertion + paired-execution comparator",
        "jobs": [{"pkg": "motion", "test": "TestVerif_C09", "shards": (16, 16), "timeout": (300, 2400), "require": ["history_pairs", "suppressed_window_frames", "motion_frames_after_period", "pairs_with_reset", "pairs_with_ffc", "crafted_weight_pairs"]},
                 {"pkg": "recorder-main", "test": "TestVerif_C14Pipe", "race": True, "shards": (16, 16), "timeout": (600, 3000), "require": ["connections", "clear_markers", "clears_right_after_a_rejected_frame", "motion_files"]}],
    },
    "C10": {
        "title": "Only complete recordings ever bear the .cptv name; crashes leave no debris",
        "level": "fault_enumeration",
        "rule": "Scenarios through the real handleConn + CPTVFileRecorder in a child process (test binary re-executed): S1 one motion recording, S2 two back-to-back, S3 throttle cut, S4 test recording overlapping a motion recording, "
                "S5 constant recorder on, S6 connection dropped in mid-frame (Stop path), S7 'clear' in mid-recording, S8 test recording and motion recording starting on the same frame, S9 throttle cut and restart within one trigger, S10 every start failing while the header is written, S11 the temporary names of the next 100 ms already taken when the motion recording starts S12 output directory and constant-recordings folder reached through symbolic links S13 an upload backlog of 3000 finished recordings in both directories S14 a relative output-dir with a working directory other than the configuration directory, S15 an output directory whose name contains pattern characters ('[', ']', '*', '?') with the constant recorder on, S16 the third camera connection of one daemon run with the constant recorder on, S17 every start failing at the header with the constant recorder on and rejected frames in the stream (quick: S1,S3,S4,S5,S6,S8,S10-S17). "
                "An uncrashed run counts the hook hits H - the file recorder's own hooks (after create, after header, before/after each frame write, before Close, between Close and rename, after rename, abort path) and hook calls inserted by build overlay into a copy of go-cptv's file writer "
                "(between its three file creations; in Close after flush, header patch, gzip copy, gzip flush/close, buffered flush, before/after closing and deleting the scratch file); then for EVERY n in 0..H the child SIGKILLs itself at hit n. "
                "Oracles: I1 - every *.cptv decodes header to EOF with the stock reader, checked synchronously at every hook inside the child, by a free-running observer goroutine, and by the parent on the directory as found; "
                "I2 - after the repository's deleteTempFiles the output directory (incl. constant-recordings/) holds complete recordings only, and none was removed. Each (scenario, n) is a case. Daemon tier (real binary on a private bus): planted debris, SIGKILL in mid-recording, restart with the continuous recorder switched off, and four rounds of a recorder setting changed in config.toml while a full-size camera streams at full speed into a motion recording - the daemon ends itself and nothing incomplete may bear the .cptv name.",
        "assumptions": COMMON_ASSUME + ["process kill only; power-loss durability is not claimed by the property", "crash points inside go-cptv's Close lie between two hooks and are covered only by the free-running observer / random kills",
                                        "'the daemon calls the clean-up at start-up' is visible in runMain but only executed by the optional daemon tier"],
        "level_text": "Fault enumeration over every hook-indexed crash point of each scenario, with a directory scanner + full decode as the oracle before and after the start-up clean-up.",
        "level_note": "Frames of recordings started in different frames are paced >= 2 ms apart as a real camera does (file names have millisecond resolution); S8 is the one same-frame collision production can produce.",
        "technique": "crash-point enumeration with self-SIGKILL at hooks + directory/decoder oracle",
        "jobs": [{"pkg": "recorder-main-dephooks", "test": "TestVerif_C10", "shards": (16, 16), "timeout": (600, 3000), "require": ["crash_points", "complete_recordings_seen", "hook_scans_in_children", "crash_points_inside_cptv_writer", "same_frame_start_repetitions"]},
                 {"pkg": "recorder-main", "test": "TestVerif_Daemon", "daemon": True, "shards": (1, 1), "timeout": (300, 600)}],
    },
    "C11": {
        "title": "Finished files decode to exactly the recorded frames, metadata and settings",
        "level": "exploration",
        "rule": "Real handleConn + CPTVFileRecorder over net.Pipe with a generated config.toml (device name up to 255 bytes incl. UTF-8, id, min/max/preview secs, trigger frames, constant recorder on/off, "
                "throttler section with activate=false and hostile bucket values, location incl. microsecond timestamp, [thermal-motion] fully specified / partially specified (camera-model defaults fill the rest) / dynamic) "
                "and camera lepton3 / lepton3.5 / boson at 16x12 (some 160x120), hostile firmware strings, serial up to 2^32-1; frame content: static scene + toggling hot pixel, random 16-bit, checkerboard 1<->65535; random telemetry words. "
                "Every finished file is decoded with the stock go-cptv reader and compared with the reference pipeline: background first (all zero with a fixed threshold), frames pixel- and telemetry-exact (ms / float32 resolution) "
                "and consecutive, header fields == config/camera, motion YAML == settings in force + triggeredthresh, continuous files == tiling, motion files == RefDetector+RefRecorderFSM prediction (fixed-threshold modes). "
                "Every 8th connection runs with throttling active (3 s bucket, 500 ms refill, paced continuous motion) so that files are cut and resumed in mid-event; those files are checked structurally (background first, threshold at trigger, frames exact and consecutive). "
                "Non-trivial = connection that produced at least one finished file.",
        "assumptions": COMMON_ASSUME + ["CPTV field ranges: serial uint32, preview-secs/fps uint8, strings <= 255 bytes, altitude >= 0 (go-cptv omits negative altitudes)",
                                        "dynamic-threshold connections are checked structurally (frames, header, consecutiveness), not predicted"],
        "level_text": "Offline differential checker: decode everything the daemon wrote and compare with a reference pipeline composed from models that the unit-tier checks validated against the real components.",
        "level_note": "go-cptv and go-config are pinned dependencies and part of the system under observation.",
        "technique": "offline differential checker (decoded output vs reference pipeline)",
        "jobs": [{"pkg": "recorder-main", "test": "TestVerif_C11", "race": True, "shards": (16, 16), "timeout": (600, 3000), "require": ["connections", "frames_compared", "motion_files", "continuous_files", "mode_0_connections", "mode_1_connections", "mode_2_connections", "mode_3_connections", "throttle_resumed_files_checked", "predicted_motion_frames", "connections_after_a_reconnect", "connections_with_a_test_recording"]},
                 {"pkg": "recorder-main", "test": "TestVerif_C11Warmup", "shards": (8, 16), "timeout": (300, 1200), "require": ["warmup_connections", "warmup_connections_with_limits", "clears_during_warmup", "test_recordings_during_the_ffc_period"]},
                 {"pkg": "recorder-main", "test": "TestVerif_ConfigReread", "shards": (6, 12), "timeout": (300, 1200), "require": ["connections_after_a_thermal_motion_edit"]},
                 {"pkg": "recorder-main", "test": "TestVerif_C01Pipe", "shards": (8, 16), "timeout": (300, 1800), "require": ["pipeline_connections", "motion_files", "throttled_connections"]}],
    },
    "C12": {
        "title": "Sinks see writes only inside start..stop; faults never crash the pipeline",
        "level": "fault_enumeration",
        "rule": "Real MotionProcessor with monitor sinks on all three recorder interfaces. Part 1 (fault enumeration): every event sequence of length 1..5 (thorough 7, and 8 on the nine configurations with the continuous recorder on) over {motion frame, frame, bad frame, reset, test-recording request} x 18 small configs "
                "(max-secs*fps 0..2, trigger-frames 0..2, continuous recorder on/off) x the fault-free run and EVERY single-fault placement (each Start/Write/Stop/CheckCanRecord call of each sink made inside the script fails once). "
                "Part 2: random scripts (8..400 events) with 1-30% per-call fault rate. Each run is followed by a fault-free recovery suffix. Oracle: per-sink protocol automaton, recovered panics, "
                "and bounded progress (the suffix's motion burst must start exactly one recording at the expected frame that satisfies the C01-C03 oracles). Distinct by (config, full sink trace).",
        "assumptions": COMMON_ASSUME + ["StopRecording on a closed sink is not flagged (the property does not forbid it)", "liveness is restated as bounded progress on a fixed fault-free suffix"],
        "level_text": "Fault enumeration: for every short event sequence the number of sink calls is fixed by a fault-free run and one run per call index injects an error exactly there; every run is judged by protocol automata on the three sinks, panic capture and a recovery check. Random multi-fault scripts extend this to long histories.",
        "level_note": "Enumeration is complete for sequences up to the stated length on the listed configurations; longer histories and fault combinations are sampled. The real CPTVFileRecorder under real I/O faults is exercised by the pipeline job.",
        "technique": "protocol-automaton monitors on injected sinks with exhaustive single-fault placement",
        "jobs": [{"pkg": "motion", "test": "TestVerif_C12", "shards": (16, 16), "timeout": (300, 2400), "require": ["requests_inside_test_start", "single_fault_runs", "recoveries_checked", "random_faults_injected"]},
                 {"pkg": "recorder-main", "test": "TestVerif_C12Pipe", "shards": (12, 16), "timeout": (300, 1800), "require": ["runs_after_the_config_watcher_compared_configs", "pipeline_fault_runs", "pipeline_faults_injected"]},
                 {"pkg": "throttle", "test": "TestVerif_ThrottleComposition", "shards": (16, 16), "timeout": (300, 2400), "require": ["composition_runs", "base_starts_checked", "mid_trigger_restarts", "base_start_failures", "runs_with_disk_low_windows"]}],
    },
    "C13": {
        "title": "Bad frames are rejected, never recorded or buffered, end the recording cleanly",
        "level": "exploration",
        "rule": "In cmd/thermal-recorder (frameParser's choice and convertRawBosonFrame under test) with a real MotionProcessor and monitor sinks. Part A (exhaustive): for lepton3 / lepton3.5 / boson at 8x6 and edge 0..2, "
                "a zero at every pixel position, zeros on the whole border only, several interior zeros: Process returns *lepton3.BadFrameErr <=> independent decode finds an interior zero; accepted frames reach the sink pixel- and telemetry-exact. "
                "Part B: seeded streams (10..90 frames, 3-20 % bad frames incl. consecutive ones and one placed at an offset -2..trigger+min+2 around the first motion burst, test-recording requests): classification per frame, "
                "no sink write / snapshot carries a rejected frame's id, motion recording closed at the bad frame, valid frames decoded exactly, detection verdicts equal to the twin run with the bad frames deleted. "
                "Third job: the C14 pipeline workload (real handleConn, randomly segmented byte stream, a third of the connections with 2-10 % bad frames): stored frames and recordings must equal the reference pipeline's prediction, i.e. processing resumes with the frame after a bad one without losing alignment. "
                "Non-trivial = stream containing bad frames / every Part A case.",
        "assumptions": COMMON_ASSUME + ["the FLIR telemetry layout belongs to the pinned lepton3 package; the harness encoder is self-tested against lepton3.ParseTelemetry at start-up (disagreement = harness fault, exit 2)",
                                        "the 'asks the camera daemon to restart' D-Bus call is only observable with a bus (not claimed here)"],
        "level_text": "Independent raw decoders + sink-trace scan + paired-execution comparator, exhaustive over zero positions for small frames and sampled over streams.",
        "level_note": "Writes to a closed continuous sink after a bad frame were C12's finding F4 (fixed).",
        "technique": "independent-decoder differential + sink-trace scan + paired-execution comparator",
        "jobs": [{"pkg": "recorder-main", "test": "TestVerif_C13", "shards": (16, 16), "timeout": (300, 2400), "require": ["bad_frames_rejected", "valid_frames_accepted", "streams", "recordings_ended_by_bad_frame", "motion_frames", "valid_frames_compared", "streams_with_failing_stops"]},
                 {"pkg": "recorder-main", "test": "TestVerif_C14Pipe", "race": True, "shards": (16, 16), "timeout": (600, 3000), "require": ["valid_frames_with_zeros_deep_in_a_wide_border", "connections", "frames_verified_in_storage", "bad_frames_in_streams"]},
                 {"pkg": "recorder-main", "test": "TestVerif_Daemon", "daemon": True, "shards": (1, 1), "timeout": (300, 600)}],
    },
    "C14": {
        "title": "Frame socket: header round-trips, frames delivered once, 'clear' resets",
        "level": "exploration",
        "rule": "Job 1 (headers package, amd64 and GOARCH=386): seeded camera descriptions (hostile single-line strings such as true/1.2/~/a: b/#c/quotes/tabs/UTF-8, random printable strings up to 255 bytes, serials over the whole uint64 range) "
                "encoded as leptond does (yaml.v1 Marshal of the headers-keyed map + blank line), read through ReadHeaderInfo in 1-byte / small / whole / random pieces followed by sentinel bytes; every strict prefix followed by EOF. "
                "Job 2 (cmd/thermal-recorder, -race): real handleConn over net.Pipe fed header + 20..300 frames + 0..7 'clear' markers (first/last/back-to-back) cut at PRNG-chosen byte boundaries (1-byte dribble, inside header/blank line/5-byte probe, bursts > 4096 bytes); "
                "lepton3/3.5/boson, 16x12 and 160x120. Oracles: parsed header == sent; bytes after the blank line intact; frames received == sent; resets == markers; continuous-recorder files hold every sent frame once, in order, pixel- and telemetry-exact; "
                "motion files equal the reference pipeline's prediction (recordings end at 'clear', detection restarts). Non-trivial = every completed case; distinct by encoded header / (stream, segmentation).",
        "assumptions": COMMON_ASSUME + ["cmd/leptond's sendCameraSpecs needs camera hardware; its encoder call is replicated by the harness", "string values are single-line (a value containing an empty line cannot be framed by a blank-line-terminated header)",
                                        "the 'clear' marker, the header key set and the Lepton frame size compiled into cmd/leptond and cmd/thermal-recorder are reported by in-package jobs of both binaries and compared by the driver"],
        "level_text": "Differential header round trip with exhaustive truncation points per generated header, plus an offline sent-vs-stored comparison through the real socket loop under adversarial read segmentation.",
        "level_note": "F6 (CameraSerial outside Go int reads 0) is a listed known finding.",
        "technique": "differential round-trip monitor + offline sent-vs-stored checker under randomized read segmentation",
        "jobs": [
            {"pkg": "headers", "test": "TestVerif_C14Header", "shards": (8, 16), "timeout": (300, 1800), "require": ["headers", "truncation_points", "serials_outside_int"]},
            {"pkg": "headers", "test": "TestVerif_C14Header", "tag": "386", "goarch": "386", "shards": (4, 8), "timeout": (300, 1800), "require": ["headers", "truncation_points"]},
            {"pkg": "leptond-main", "test": "TestVerif_C14Agree", "tag": "leptond", "shards": (1, 1), "timeout": (120, 120), "require": ["constant_sets_reported"]},
            {"pkg": "recorder-main", "test": "TestVerif_C14Agree", "tag": "recorder", "shards": (1, 1), "timeout": (120, 120), "require": ["constant_sets_reported"]},
            {"pkg": "recorder-main", "test": "TestVerif_C14Pipe", "race": True, "shards": (16, 16), "timeout": (600, 3000), "require": ["connections_stalled_inside_a_prefix", "clears_with_failing_stop", "connections", "frames_verified_in_storage", "clear_markers", "recordings_ended_by_clear", "motion_files", "bad_frames_in_streams"]},
            {"pkg": "recorder-main", "test": "TestVerif_C11Warmup", "shards": (8, 16), "timeout": (300, 1200), "require": ["clears_during_warmup"]},
            {"pkg": "recorder-main", "test": "TestVerif_C17Pipe", "shards": (8, 16), "timeout": (300, 1800), "require": ["runs_with_clear_markers", "pipeline_test_recordings"]},
        ],
    },
    "C15": {
        "title": "Dynamic threshold tracks the background mean within its configured bounds",
        "level": "exploration",
        "rule": "Seeded streams (10..140 frames; static/warming/cooling/stepping/extreme scenes with a hot moving block, FFC periods, resets) through a real MotionProcessor with dynamic threshold; "
                "(tmin,tmax) in {unset,set}^2 incl. tmin=tmax; scene level below/inside/above the range; preview*fps in {0,1,9,45}; edge 0-3. After every frame the monitor reads the detector in-package: "
                "interior background <= frame, border = nearest interior pixel, re-seed on the first non-FFC frame after FFC/reset/start, threshold = clamp(exact integer mean) +-1 whenever the background changed and "
                "more than preview*fps updates happened (else unchanged or clamped mean); background/threshold passed to StartRecording equal the detector state at the trigger. "
                "Non-trivial = stream with at least one threshold recomputation.",
        "assumptions": COMMON_ASSUME + ["+-1 absorbs float accumulation and truncation of the mean"],
        "level_text": "In-package invariant monitor evaluated after every Detect, plus comparison of the snapshot handed to the motion sink.",
        "level_note": "The 'recompute after more than preview*fps background updates' schedule is taken from the detector's design; the property fixes only the value.",
        "technique": "invariant monitor on hooked (in-package) state",
        "jobs": [{"pkg": "motion", "test": "TestVerif_C15", "shards": (16, 16), "timeout": (300, 2400), "require": ["boson_sized_streams", "frames", "threshold_recomputations", "reseeds", "recording_starts_checked", "ffc_frames"]},
                 {"pkg": "throttle", "test": "TestVerif_ThrottleComposition", "shards": (16, 16), "timeout": (300, 2400), "require": ["composition_runs", "base_starts_checked", "mid_trigger_restarts", "base_start_failures", "runs_with_disk_low_windows"]},
                 {"pkg": "recorder-main", "test": "TestVerif_ConfigReread", "shards": (6, 12), "timeout": (300, 1200), "require": ["connections_after_a_thermal_motion_edit"]}],
    },
    "C16": {
        "title": "Snapshots taken concurrently with processing are whole frames; no data races",
        "level": "exploration",
        "rule": "Under -race: real handleConn (2-5 successive connections per repetition, 500 (thorough 3000) uniform-valued frames each, value = f(id), fed at full speed / in bursts / paced) while 1-8 goroutines call "
                "service.TakeSnapshot / TakeTestRecording / CameraInfo in loops with PRNG pauses, plus one request forced exactly between publication of a new processor and its first frame; GOMAXPROCS in {1,2,4,16}; Gosched/us sleeps at hooks. "
                "Oracles: (a) every race-detector report (reduced to the unordered pair of top-most repository frames); (b) each returned image is uniform, is a received frame, id >= last frame completed at call time on the current connection, "
                "id <= last frame fully received at return, never a never-received (all-zero) image, and an image handed out earlier never changes afterwards (each requester re-checks its previous image after its next request); (c) continuous files and motion files equal the reference pipeline's prediction, every other file is a 21-frame test recording, all frames processed (bounded progress). "
                "A repetition is a case; evidence lists requests per kind and (kind, frame-loop phase) pairs seen.",
        "assumptions": COMMON_ASSUME + ["interleavings are sampled, not enumerated: 'no race observed in K executions', not race freedom", "pre-trigger ring capacity >= 2 (with capacity 1 'previous' and 'current' slot coincide; outside the quantifier over schedules)",
                                        "a watchdog firing is reported as a violation of the bounded-progress restatement only for this job (generous 10-50 min limit for a run of seconds)"],
        "level_text": "Go race detector + interval check on an event log with one atomic logical clock (request call/return at the client boundary, frame received/processed at handleConn hooks) + offline comparison of the recordings with the request-free prediction.",
        "level_note": "A porcupine register model would also demand monotonic reads across requests, which the property does not state; the direct interval check is exactly the property and linear with unique ids.",
        "technique": "Go race detector + interval (freshness) checker over a logical-clock event log",
        "jobs": [{"pkg": "recorder-main", "test": "TestVerif_C16", "race": True, "shards": (6, 16), "gomaxprocs": [1, 2, 4, 16, 16, 3], "timeout": (900, 3000), "hang_is_violation": True,
                  "require": ["outage_probes", "test_recordings_across_a_bad_frame", "churn_connections", "requests_during_churn", "snapshots_checked", "held_snapshots_rechecked", "reconnect_probes", "requests_TakeSnapshot", "requests_TakeTestRecording", "requests_CameraInfo", "motion_recordings_matched", "test_recordings_found"]}],
    },
    "C17": {
        "title": "Continuous recorder tiles the stream; a test recording is 21 consecutive frames",
        "level": "exploration",
        "rule": "Real MotionProcessor with monitor sinks. Part 1: for max-secs*fps in {0,1,2,5}: a test-recording request at every offset of a stream x a motion burst at ~12 offsets. "
                "Part 2: seeded random scripts (30..900 events; max-secs*fps in {0,1,2,3,5,6,9,27,180}; resets, optional bad frames, non-overlapping requests, refusals). "
                "Oracles: continuous files hold consecutive accepted frames, max*fps+1 each, every frame exactly once; request => one recording of the next 21 accepted frames; "
                "twin runs: continuous/test traces identical when only motion/window/disk/start outcomes differ, motion trace identical with and without requests. "
                "Non-trivial = at least one continuous file or test recording; distinct by (config, trace).",
        "assumptions": COMMON_ASSUME + ["requests are non-overlapping (the property's quantifier); bad frames close the current continuous file (the error path), the next frame opens a new one",
                                        "space-based pruning (deleteExcessRecordings) depends on the real disk and is only exercised by the pipeline job"],
        "level_text": "Offline trace checker for the continuous and test sinks plus paired-execution comparators (independence from motion, window, gates; motion recording undisturbed by requests), over a request-offset sweep and random scripts.",
        "level_note": "Throttling independence is structural here (the continuous sink is never wrapped); the pipeline job checks it through main.go's wiring.",
        "technique": "offline trace checker + paired-execution comparator on monitor sinks",
        "jobs": [{"pkg": "motion", "test": "TestVerif_C17", "shards": (16, 16), "timeout": (300, 2400), "require": ["test_recordings_while_continuous_sink_fails", "continuous_sink_failures", "continuous_files", "test_recordings_completed", "test_recordings_overlapping_motion_recording"]},
                 {"pkg": "recorder-main", "test": "TestVerif_C17Pipe", "shards": (8, 16), "timeout": (300, 1800), "require": ["runs_with_frozen_telemetry", "pipeline_runs", "pipeline_continuous_files", "pipeline_test_recordings", "pipeline_runs_after_a_reconnect", "pipeline_runs_with_low_disk", "runs_with_clear_markers", "runs_with_files_shorter_than_a_millisecond", "finished_recordings_in_the_way_left_alone"]}],
    },
    "C18": {
        "title": "thermal-writer stores every frame once, in order, in well-formed CPTR files",
        "level": "exploration",
        "rule": "Under -race: real thermal-writer handleConn(conn, conf, false) over net.Pipe with a fresh output directory per connection. Grid: frame sizes {5,16,1000,39040,655360} x frame counts {0,1,255,256,257,2000 (300 for the largest)} x "
                "hook schedules {none, writer stalled until all 256 buffers are in flight, reader stalled, alternating, random us sleeps/Gosched}, connection closed between frames or in mid-frame, socket writes whole / 1 byte / random; "
                "plus seeded random cases and pairs of connections where the camera reconnects while the first connection's writer goroutine is still stalled with a backlog; GOMAXPROCS in {1,2,4,16}; thorough adds one 65 s trickle run across the real one-minute file rotation; a second job runs paced connections of 5-7 s against a build whose rotation constant is shortened to 2 s (generated copy of main.go differing in that constant only), so that frames before, across and after rotations and the final flush after a rotation are checked in every run. Frames are id-stamped PRNG blocks. "
                "Oracles: independent CPTR parser (magic, version 2, header fields T/E/B/Z/X/Y/C=0/D/I, then F sections with one length field, no trailing bytes); concatenated payloads == frames sent (count, order, bytes); partial last frame not stored; "
                "event-log conservation at hooks (filled = written + in flight <= 256; at writer exit written == queued); handleConn and writer must finish; race detector. A connection is a case.",
        "assumptions": COMMON_ASSUME + ["writer() panics on I/O errors by design; disk-full behaviour is not in the property", "file names have 1 s resolution: one output directory per connection"],
        "level_text": "Offline file checker + event-log conservation check + race detector over a grid of sizes/counts/stall schedules that drives the backlog to the 256-buffer limit.",
        "level_note": "Interleavings are sampled through hook-injected stalls and GOMAXPROCS variation, not enumerated.",
        "technique": "offline file checker + hook-based conservation monitor + Go race detector",
        "jobs": [{"pkg": "writer-main", "test": "TestVerif_C18", "race": True, "shards": (16, 16), "gomaxprocs": [1, 2, 4, 16], "timeout": (900, 3000), "hang_is_violation": True,
                  "require": ["connections_with_segments_ignoring_frame_boundaries", "connections", "frames_verified", "buffers_recycled", "runs_reaching_256_in_flight", "overlapping_connection_pairs"]},
                 {"pkg": "writer-main", "test": "TestVerif_C18Names", "race": True, "shards": (8, 16), "timeout": (600, 1800), "require": ["shared_directory_runs", "connections_into_shared_directory"]},
                 {"pkg": "writer-main-fastrotate", "test": "TestVerif_C18Rotate", "race": True, "shards": (4, 8), "timeout": (600, 1800), "hang_is_violation": True,
                  "require": ["runs_crossing_file_rotation", "frames_verified"]}],
    },
    "C19": {
        "title": "Frame ring buffer returns exactly the retained history, oldest first",
        "level": "exploration",
        "exhaustive_possible": False,
        "rule": "part 1: BFS over every (product state, operation) pair of real FrameLoop x RefRing for capacities 1..8 (thorough 1..12) under {stamp+Move, SetAsOldest, Reset} "
                "(each transition is a case; distinct = distinct (state, op) pairs); part 1b: from every reachable state of capacities 1..6: observe, then 1..3N+1 unobserved moves (optionally ending in a mark), observe again "
                "(observations reuse internal buffers, so the monitor must also look sparsely); part 2: seeded random operation sequences, capacity 1..64, observed after every op / sparsely / whole laps apart; "
                "after every operation GetHistory/Oldest/CopyRecent/Current are compared with the model; non-trivial = every transition / every completed random sequence",
        "assumptions": COMMON_ASSUME + ["the current slot is written before each Move (as MotionProcessor and motionDetector do)",
                                        "RefRing (harness/motion/c19_test.go) is the specification"],
        "level_text": "Reference-model monitor on the real FrameLoop: every transition out of every reachable (implementation x model) state for capacities 1..8 is executed and judged, plus random long sequences up to capacity 64. Exploration is the right level: the ring is small and deterministic, so the BFS part is complete for those capacities while larger ones are sampled.",
        "level_note": "Trusts RefRing as the specification and that product states are captured by (currentIndex, bufferFull, oldest, min(n,N), mark age).",
        "technique": "reference-model runtime monitor (BFS + random operation sequences)",
        "jobs": [{"pkg": "motion", "test": "TestVerif_C19", "shards": (4, 16), "timeout": (900, 2400), "require": ["twin_ring_runs", "bfs_transitions", "random_ops", "sparse_observation_pairs", "random_observations", "concurrent_recent_copies"]}],
    },
    "C20": {
        "title": "Log limiter drops only exact repeats inside the interval, nothing else",
        "level": "exploration",
        "rule": "every sequence of length 1..5 (thorough 6) over 3 messages x 6 inter-arrival times {0,1ns,I-1ns,I,I+1ns,3I} through Print/Printf with an injected clock, "
                "plus seeded random sequences (10..10000 messages, hostile strings); shadow model decides print/suppress per message and the exact printed line; "
                "non-trivial = at least one message was suppressed; distinct by sequence. Second job: real MotionProcessor with a permanently refusing CheckCanRecord under 2000+ motion frames must log 'Recording not started' at least once and at most (elapsed/1min)+2 times (outer stopwatch, sound direction).",
        "assumptions": COMMON_ASSUME + ["log output captured through log.SetOutput with flags 0"],
        "level_text": "Online shadow-model monitor over every short (message, arrival time) sequence at the interval boundaries and long random sequences; the real limiter runs with an injected clock and its real log output is compared line by line.",
        "level_note": "Trusts the two-variable shadow model; real time is used only in the MotionProcessor consequence job as a one-sided (sound) bound.",
        "technique": "online shadow-model monitor with injected clock",
        "jobs": [{"pkg": "loglimiter", "test": "TestVerif_C20", "shards": (8, 16), "timeout": (120, 900), "require": ["quiet_periods_of_weeks", "printed", "suppressed"]},
                 {"pkg": "motion", "test": "TestVerif_C20Processor", "shards": (4, 8), "timeout": (120, 900), "require": ["alternating_write_failures_logged", "refusals_reprinted_after_another_line", "refused_starts", "log_lines"]}],
    },
}

HOOK_COMMITS = ["1b2679b", "4e24fb6"]

_PENDING = "check under construction in this session; not claimed until its monitor has been validated on the unchanged tree"
# The production target is a 32-bit Raspberry Pi (GOARCH=arm: int, uint and uintptr are 32 bits wide).
# Every in-process job below is therefore run a second time as a 32-bit build (GOARCH=386 binaries run
# natively in the sandbox; no race detector there) over the same case lists, so that conversions and
# products that only overflow on the production word size are observed too.
ARCH32 = {
    "C01": ["TestVerif_FSM", "TestVerif_C01Pipe", "TestVerif_ThrottleComposition"], "C02": ["TestVerif_FSM", "TestVerif_C01Pipe", "TestVerif_ThrottleComposition"], "C03": ["TestVerif_FSM"],
    "C04": ["TestVerif_FSM", "TestVerif_C04Window", "TestVerif_C04Pipe", "TestVerif_C04Bursts", "TestVerif_C04Relink"],
    "C05": ["TestVerif_Throttle", "TestVerif_C05ClockStep", "TestVerif_ThrottleComposition"],
    "C06": ["TestVerif_Throttle", "TestVerif_ThrottleComposition", "TestVerif_C06Production"],
    "C07": ["TestVerif_C07", "TestVerif_C07Config", "TestVerif_ConfigReread"], "C08": ["TestVerif_C08"], "C09": ["TestVerif_C09"],
    "C10": ["TestVerif_C10"],
    "C11": ["TestVerif_C11", "TestVerif_C11Warmup"],
    "C12": ["TestVerif_C12", "TestVerif_C12Pipe"],
    "C13": ["TestVerif_C13", "TestVerif_C14Pipe"],
    "C14": ["TestVerif_C14Pipe", "TestVerif_C11Warmup"],
    "C15": ["TestVerif_C15"],
    "C16": ["TestVerif_C16"],
    "C17": ["TestVerif_C17", "TestVerif_C17Pipe"],
    "C18": ["TestVerif_C18"],
    "C19": ["TestVerif_C19"],
    "C20": ["TestVerif_C20", "TestVerif_C20Processor"],
}
for _pid, _tests in ARCH32.items():
    for _job in list(PROPS[_pid]["jobs"]):
        if _job["test"] in _tests and not _job.get("goarch") and not _job.get("daemon"):
            PROPS[_pid]["jobs"].append(dict(_job, goarch="386", tag="386", race=False))

NOT_APPLICABLE = {("C%02d" % i): _PENDING for i in range(1, 21)}
