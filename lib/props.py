"""Tables for the check driver: repository packages that receive harnesses and
the jobs (monitor workloads) that decide each property."""

PKGS = {
    "motion": {"dir": "motion", "name": "motion", "harness": "motion", "templates": ["kit"]},
    "throttle": {"dir": "throttle", "name": "throttle", "harness": "throttle", "templates": ["kit"]},
    "loglimiter": {"dir": "loglimiter", "name": "loglimiter", "harness": "loglimiter", "templates": ["kit"]},
    "headers": {"dir": "headers", "name": "headers", "harness": "headers", "templates": ["kit"]},
    "recorder-main": {"dir": "cmd/thermal-recorder", "name": "main", "harness": "recorder-main", "templates": ["kit"]},
    "writer-main": {"dir": "cmd/thermal-writer", "name": "main", "harness": "writer-main", "templates": ["kit"]},
}

COMMON_ASSUME = [
    "the monitors observe executions of the real code built from /repo's working tree; nothing outside the executed cases is claimed",
    "pinned dependencies (go-cptv, lepton3, go-config, window, juju/ratelimit, yaml) behave as in the module cache",
]

PROPS = {
    "C19": {
        "title": "Frame ring buffer returns exactly the retained history, oldest first",
        "level": "exploration",
        "exhaustive_possible": False,
        "rule": "part 1: BFS over every (product state, operation) pair of real FrameLoop x RefRing for capacities 1..8 under {stamp+Move, SetAsOldest, Reset} "
                "(each transition is a case; distinct = distinct (state, op) pairs); part 2: seeded random operation sequences, capacity 1..64; "
                "after every operation GetHistory/Oldest/CopyRecent/Current are compared with the model; non-trivial = every transition / every completed random sequence",
        "assumptions": COMMON_ASSUME + ["the current slot is written before each Move (as MotionProcessor and motionDetector do)",
                                        "RefRing (harness/motion/c19_test.go) is the specification"],
        "level_text": "Reference-model monitor on the real FrameLoop: every transition out of every reachable (implementation x model) state for capacities 1..8 is executed and judged, plus random long sequences up to capacity 64. Exploration is the right level: the ring is small and deterministic, so the BFS part is complete for those capacities while larger ones are sampled.",
        "level_note": "Trusts RefRing as the specification and that product states are captured by (currentIndex, bufferFull, oldest, min(n,N), mark age).",
        "technique": "reference-model runtime monitor (BFS + random operation sequences)",
        "jobs": [{"pkg": "motion", "test": "TestVerif_C19", "shards": (4, 16), "timeout": (120, 900), "require": ["bfs_transitions", "random_ops"]}],
    },
    "C20": {
        "title": "Log limiter drops only exact repeats inside the interval, nothing else",
        "level": "exploration",
        "rule": "every sequence of length 1..5 (thorough 6) over 3 messages x 6 inter-arrival times {0,1ns,I-1ns,I,I+1ns,3I} through Print/Printf with an injected clock, "
                "plus seeded random sequences (10..10000 messages, hostile strings); shadow model decides print/suppress per message and the exact printed line; "
                "non-trivial = at least one message was suppressed; distinct by sequence",
        "assumptions": COMMON_ASSUME + ["log output captured through log.SetOutput with flags 0"],
        "level_text": "Online shadow-model monitor over every short (message, arrival time) sequence at the interval boundaries and long random sequences; the real limiter runs with an injected clock and its real log output is compared line by line.",
        "level_note": "Trusts the two-variable shadow model; real time is used only in the MotionProcessor consequence job as a one-sided (sound) bound.",
        "technique": "online shadow-model monitor with injected clock",
        "jobs": [{"pkg": "loglimiter", "test": "TestVerif_C20", "shards": (8, 16), "timeout": (120, 900), "require": ["printed", "suppressed"]}],
    },
}

HOOK_COMMITS = []

_PENDING = "check under construction in this session; not claimed until its monitor has been validated on the unchanged tree"
NOT_APPLICABLE = {("C%02d" % i): _PENDING for i in range(1, 21)}
