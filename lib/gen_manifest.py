#!/usr/bin/env python3
"""Regenerate /verif/MANIFEST.json from lib/props.py (run after editing it)."""
import json
import os
import sys

HERE = os.path.dirname(os.path.abspath(__file__))
sys.path.insert(0, HERE)
from props import PROPS, NOT_APPLICABLE, HOOK_COMMITS  # noqa: E402

VERIF = os.path.dirname(HERE)
GOENV = "GOFLAGS=-mod=mod GOPROXY=off GOSUMDB=off GOTOOLCHAIN=local"

checks = []
for pid in sorted(PROPS):
    p = PROPS[pid]
    checks.append({
        "property_id": pid,
        "quick_cmd": "./check %s quick" % pid,
        "thorough_cmd": "./check %s thorough" % pid,
        "evidence_file": "/verif/evidence/%s.json" % pid,
        "replay_cmd_template": "./check %s --replay {path}" % pid,
        "engine": "check",
        "level_claimed": {"category": p["level"], "text": p["level_text"], "design_ref": p.get("design_ref", "DESIGN.md section 4, " + pid)},
        "level_note": p["level_note"],
        "technique": p["technique"],
    })

all_ids = ["C%02d" % i for i in range(1, 21)]
na = [{"property_id": i, "reason": NOT_APPLICABLE[i]} for i in all_ids if i not in PROPS]
for i in all_ids:
    if i not in PROPS and i not in NOT_APPLICABLE:
        raise SystemExit("property %s neither claimed nor listed as not applicable" % i)

manifest = {
    "version": 1,
    "setup_cmd": "./check --setup",
    "hooks": {
        "guard": "verif",
        "enable": "go build tag: `go test -tags verif -overlay <generated> ...` run in /repo by ./check (harness test files are overlaid into the repository packages; hook bodies live in verif_on.go files guarded by the tag)",
        "baseline_off_cmd": "cd /repo && %s go test -vet=off -count=1 ./..." % GOENV,
        "source_commits": HOOK_COMMITS,
        "add_only": True,
    },
    "engines": [{
        "name": "check",
        "path": "/verif/check",
        "serves_properties": sorted(PROPS),
        "kind_free_text": "runtime monitoring: python driver + in-package Go monitor harnesses (reference-model monitors, protocol automata, paired-execution comparators, invariant hooks, offline file/event-log checkers, Go race detector)",
    }],
    "checks": checks,
    "not_applicable": na,
    "notes": "All checks rebuild the harness test binaries from /repo's working tree on every invocation. VERIF_SEED selects the PRNG stream; case lists are fixed by (tier, seed). See DESIGN.md.",
}
with open(os.path.join(VERIF, "MANIFEST.json"), "w") as f:
    json.dump(manifest, f, indent=1)
print("wrote MANIFEST.json with %d checks, %d not applicable" % (len(checks), len(na)))
