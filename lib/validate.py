#!/usr/bin/env python3-vt
"""Validate MANIFEST.json and evidence files against the schemas (tooling venv has jsonschema)."""
import json, sys, glob, jsonschema
ok = True
jsonschema.validate(json.load(open('/verif/MANIFEST.json')), json.load(open('/root/.vp/MANIFEST.schema.json')))
es = json.load(open('/root/.vp/EVIDENCE.schema.json'))
for f in sorted(glob.glob('/verif/evidence/*.json')):
    try:
        jsonschema.validate(json.load(open(f)), es)
    except Exception as e:
        ok = False
        print("INVALID", f, str(e)[:300])
print("schemas ok" if ok else "schema errors")
sys.exit(0 if ok else 1)
