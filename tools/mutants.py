"""Hand-written mutants (the "breaks" lists of DESIGN.md section 4) used to
validate that each monitor fires. Applied only to scratch worktrees."""

MP = "motion/motionprocessor.go"
FL = "motion/frameloop.go"
MO = "motion/motion.go"
TH = "throttle/throttled_recorder.go"
LL = "loglimiter/loglimiter.go"


def E(file, old, new):
    return {"file": file, "old": old, "new": new}


MUTANTS = {
    # ---- C01 / C02 / C19
    "pretrigger-writes-current": {"edits": [E(MP, "for ii < len(frames)-1 {", "for ii < len(frames) {")], "props": ["C01", "C02"]},
    "no-setasoldest-on-stop": {"edits": [E(MP, "\tmp.frameLoop.SetAsOldest()\n", "")], "props": ["C01", "C02"]},
    "history-off-by-one": {"edits": [E(FL, "historyLength := (fl.currentIndex-fl.oldest+fl.size)%fl.size + 1", "historyLength := (fl.currentIndex-fl.oldest+fl.size)%fl.size")], "props": ["C19", "C01", "C02"]},
    "ring-preview-only": {"edits": [E(MP, "NewFrameLoop(recorderConf.PreviewSecs*c.FPS()+motionConf.TriggerFrames, c)", "NewFrameLoop(recorderConf.PreviewSecs*c.FPS()+1, c)")], "props": ["C02"]},
    "move-no-mark-expiry": {"edits": [E(FL, "\tif fl.currentIndex == fl.oldest {\n\t\tfl.oldest = NO_OLDEST_SET\n\t}\n", "")], "props": ["C19", "C02"]},
    "reset-keeps-bufferfull": {"edits": [E(FL, "\tfl.bufferFull = false\n\n}", "\n}")], "props": ["C19"], "note": "equivalent mutant: Reset sets oldest=currentIndex=0, the mark stays alive until the ring has wrapped, by which time bufferFull is true again"},
    "fullhistory-wrap": {"edits": [E(FL, "copy(fl.orderedFrames[fl.size-nextIndex:], fl.frames[:nextIndex])", "copy(fl.orderedFrames[fl.size-nextIndex:], fl.frames[:fl.currentIndex])")], "props": ["C19"], "note": "only the last (current) element is wrong, which recordPreTriggerFrames never reads: invisible to C02 by construction"},
    # ---- C03
    "no-max-cap": {"edits": [E(MP, "mp.writeUntil = min(mp.framesWritten+mp.minFrames, mp.maxFrames)", "mp.writeUntil = mp.framesWritten + mp.minFrames")], "props": ["C03"]},
    "min-minus-one": {"edits": [E(MP, "mp.writeUntil = min(mp.framesWritten+mp.minFrames, mp.maxFrames)", "mp.writeUntil = min(mp.framesWritten+mp.minFrames-1, mp.maxFrames)")], "props": ["C03"]},
    "stop-gt": {"edits": [E(MP, "mp.framesWritten >= mp.writeUntil", "mp.framesWritten > mp.writeUntil")], "props": ["C03"]},
    "fps-constant-9": {"edits": [E(MP, "minFrames:         recorderConf.MinSecs * c.FPS(),", "minFrames:         recorderConf.MinSecs * 9,")], "props": ["C03"]},
    # ---- C04
    "no-window-gate": {"edits": [E(MP, "\tif !mp.window.Active() {\n\t\treturn errors.New(\"motion detected but outside of recording window\")\n\t}\n", "\t_ = errors.New\n")], "props": ["C04"]},
    "trigger-le": {"edits": [E(MP, "mp.triggered < mp.triggerFrames", "mp.triggered <= mp.triggerFrames")], "props": ["C04"]},
    "refused-start-resets-run": {"edits": [E(MP, "\t\t\tmp.log.Printf(\"Recording not started: %v\", err)\n", "\t\t\tmp.log.Printf(\"Recording not started: %v\", err)\n\t\t\tmp.triggered = 0\n")], "props": ["C04"]},
    "check-ignored": {"edits": [E(MP, "\treturn mp.recorder.CheckCanRecord()\n", "\tmp.recorder.CheckCanRecord()\n\treturn nil\n")], "props": ["C04"]},
    # ---- C12 / C17
    "cr-ge": {"edits": [E(MP, "if mp.crFrames > mp.maxFrames {", "if mp.crFrames >= mp.maxFrames {")], "props": ["C17"]},
    "snapshot-22": {"edits": [E(MP, "if mp.snapshotFrames > 20 {", "if mp.snapshotFrames > 21 {")], "props": ["C17"]},
    "snapshot-skips-frame": {"edits": [E(MP, "\t\tmp.SnapshotRecording = true\n\t}\n".replace("\\t", "\t").replace("\\n", "\n"), "\t\tmp.SnapshotRecording = true\n\t\treturn\n\t}\n".replace("\\t", "\t").replace("\\n", "\n"))], "props": ["C17"]},
    "cr-only-in-window": {"edits": [E(MP, "\tif mp.crFrames == 0 {\n".replace("\\t", "\t").replace("\\n", "\n"), "\tif mp.crFrames == 0 && !mp.window.Active() {\n\t\treturn\n\t}\n\tif mp.crFrames == 0 {\n".replace("\\t", "\t").replace("\\n", "\n"))], "props": ["C17"]},
    "revert-F4": {"edits": [E(MP, "\tmp.constantRecorder.StopRecording()\n\tmp.crFrames = 0\n".replace("\\t", "\t").replace("\\n", "\n"), "\tmp.constantRecorder.StopRecording()\n".replace("\\t", "\t").replace("\\n", "\n"))], "props": ["C12"]},
    "revert-F5": {"edits": [E(MP, "if mp.StartSnapshot && mp.SnapshotRecording {", "if false {")], "props": ["C12"]},
    "isrecording-before-start": {"edits": [E(MP, "\n\tif err := mp.recorder.StartRecording(mp.motionDetector.background, mp.motionDetector.tempThresh); err != nil {\n".replace("\\t", "\t").replace("\\n", "\n"), "\n\tmp.isRecording = true\n\tif err := mp.recorder.StartRecording(mp.motionDetector.background, mp.motionDetector.tempThresh); err != nil {\n".replace("\\t", "\t").replace("\\n", "\n"))], "props": ["C12", "C04"]},
    "no-stop-on-bad-frame": {"edits": [E(MP, "\t\tmp.stopRecording()\n\t\tmp.stopConstantRecorder()\n".replace("\\t", "\t").replace("\\n", "\n"), "\t\tmp.stopConstantRecorder()\n".replace("\\t", "\t").replace("\\n", "\n"))], "props": ["C03", "C01"]},
    # ---- C20
    "ll-update-time-on-suppress": {"edits": [E(LL, "\tif now.Sub(limiter.previousTime) < limiter.interval && s == limiter.previousEntry {\n\t\treturn\n", "\tif now.Sub(limiter.previousTime) < limiter.interval && s == limiter.previousEntry {\n\t\tlimiter.previousTime = now\n\t\treturn\n")], "props": ["C20"]},
    "ll-le-boundary": {"edits": [E(LL, "now.Sub(limiter.previousTime) < limiter.interval", "now.Sub(limiter.previousTime) <= limiter.interval")], "props": ["C20"]},
}
