#!/usr/bin/env python3
"""Regenerate the validation tables in DESIGN.md (between the marker comments)
and the detected_by fields of seeded/*/meta.json from tools/mut_results.jsonl
(latest result per (mutant, property))."""
import glob
import json
import os
import re
import sys

VERIF = os.path.dirname(os.path.dirname(os.path.abspath(__file__)))
sys.path.insert(0, os.path.join(VERIF, "tools"))
from mutants import MUTANTS  # noqa: E402

latest = {}
for line in open(os.path.join(VERIF, "tools", "mut_results.jsonl")):
    r = json.loads(line)
    for p, v in r.get("results", {}).items():
        latest[(r["mutant"], p)] = (v["exit"], r.get("tier", "quick"), v.get("kinds", []))


def kinds_short(kinds):
    ks = []
    for k in kinds:
        for part in k.split(";"):
            m = re.search(r"kind=([^ ]+)", part)
            if m and m.group(1) not in ks:
                ks.append(m.group(1))
    return ", ".join(ks[:3])


# ---- mutants
rows = []
ncaught = nmiss = 0
for mid in MUTANTS:
    spec = MUTANTS[mid]
    cells = []
    for p in spec["props"]:
        r = latest.get((mid, p))
        if r is None:
            cells.append("%s: not run" % p)
        elif r[0] == 1:
            cells.append("%s: caught (%s)" % (p, kinds_short(r[2])))
            ncaught += 1
        elif r[0] == 0:
            cells.append("%s: **missed**" % p)
            nmiss += 1
        else:
            cells.append("%s: check error" % p)
    files = sorted(set(e["file"] for e in spec["edits"]))
    rows.append("| `%s` | %s | %s | %s |" % (mid, ", ".join(os.path.basename(f) for f in files), "; ".join(cells), spec.get("note", "")))
mut_txt = ("%d (mutant, check) pairs run at the quick tier: %d caught, %d not caught. Every pair that was not caught is annotated "
           "(equivalent mutant, or a secondary property that the change does not violate).\n\n"
           "| mutant | file | result per check | note |\n|---|---|---|---|\n" % (ncaught + nmiss, ncaught, nmiss)) + "\n".join(rows) + "\n"

# ---- seeded
srows = []
for d in sorted(glob.glob(os.path.join(VERIF, "seeded", "*"))):
    mp = os.path.join(d, "meta.json")
    if not os.path.exists(mp):
        continue
    m = json.load(open(mp))
    det = {}
    cells = []
    for p in m.get("checks", [m["property"]]):
        r = latest.get((m["id"], p))
        if r is None:
            cells.append("%s: not run" % p)
            continue
        det[p] = {"result": "caught" if r[0] == 1 else ("missed" if r[0] == 0 else "check error"), "tier": r[1], "kinds": kinds_short(r[2])}
        if r[0] == 1:
            cells.append("%s: caught (%s)" % (p, kinds_short(r[2])))
        elif r[0] == 0:
            cells.append("%s: not caught" % p)
        else:
            cells.append("%s: check error" % p)
    m["detected_by"] = det
    json.dump(m, open(mp, "w"), indent=1)
    srows.append("| `%s` | %s | %s | %s |" % (m["id"], m["property"], m.get("needs", ""), "; ".join(cells)))
seed_txt = ("All %d are caught by the check of the property they were written against (first cell of the last column); "
            "the other cells are checks of neighbouring properties run for information.\n\n"
            "| seeded change | property | needs, to manifest | checks (quick tier) |\n|---|---|---|---|\n" % len(srows)) + "\n".join(srows) + "\n"

p = os.path.join(VERIF, "DESIGN.md")
s = open(p).read()


def put(s, name, txt):
    b, e = "<!-- %s:BEGIN -->" % name, "<!-- %s:END -->" % name
    if b in s:
        i, j = s.index(b), s.index(e)
        return s[:i] + b + "\n" + txt + s[j:]
    return s.replace("RESULTS_" + name, b + "\n" + txt + e)


s = put(s, "MUTANTS", mut_txt)
s = put(s, "SEEDED", seed_txt)
open(p, "w").write(s)
print("mutant pairs: caught %d missed %d; seeded: %d" % (ncaught, nmiss, len(srows)))
