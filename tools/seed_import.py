#!/usr/bin/env python3
"""Confirm a sub-agent's seeded change independently and import it into /verif/seeded/<id>/.

usage: tools/seed_import.py <src-seed-dir> <seed-id> <property> <demo-file-rel> <demo-dest-dir> <go-test-args...>

Steps (all in a fresh scratch worktree of /repo under /tmp/vmut, removed afterwards):
  1. clean tree + demo  -> demo must PASS
  2. git apply patch     -> full existing suite must PASS, demo must FAIL
On success copies patch.diff, the demo and a meta.json to /verif/seeded/<id>/.
"""
import json
import os
import shutil
import subprocess
import sys

GOENV = dict(GOFLAGS="-mod=mod", GOPROXY="off", GOSUMDB="off", GOTOOLCHAIN="local")
VERIF = os.path.dirname(os.path.dirname(os.path.abspath(__file__)))


def sh(cmd, **kw):
    env = dict(os.environ)
    env.update(GOENV)
    return subprocess.run(cmd, stdout=subprocess.PIPE, stderr=subprocess.STDOUT, text=True, env=env, **kw)


def main():
    src, sid, prop, demo_rel, dest = sys.argv[1:6]
    targs = sys.argv[6:]
    wt = "/tmp/vmut/si-" + sid
    sh(["git", "-C", "/repo", "worktree", "remove", "--force", wt])
    shutil.rmtree(wt, ignore_errors=True)
    os.makedirs("/tmp/vmut", exist_ok=True)
    r = sh(["git", "-C", "/repo", "worktree", "add", "--detach", wt, "HEAD"])
    if r.returncode != 0:
        print(r.stdout)
        sys.exit(2)
    ok = False
    try:
        demo_src = os.path.join(src, demo_rel)
        base = os.path.basename(demo_rel).lstrip("_")
        if base.endswith(".txt"):
            base = base[:-4]
        demo_dst = os.path.join(wt, dest, "zz_seed_" + base)
        shutil.copy(demo_src, demo_dst)
        cmd = ["go", "test", "-vet=off", "-count=1"] + targs
        demo_arch = os.environ.get("SEED_DEMO_GOARCH", "")
        if demo_arch:
            # the demonstration needs the 32-bit word size of the production target
            cmd = ["env", "GOARCH=" + demo_arch] + cmd
        r1 = sh(cmd, cwd=wt)
        print("demo on clean tree:", "PASS" if r1.returncode == 0 else "FAIL")
        if r1.returncode != 0:
            print(r1.stdout[-2000:])
            return
        r = sh(["git", "-C", wt, "apply", os.path.join(src, "patch.diff")])
        if r.returncode != 0:
            print("patch does not apply:", r.stdout)
            return
        os.remove(demo_dst)
        rb = sh(["go", "build", "./..."], cwd=wt)
        rb2 = sh(["go", "build", "-tags", "verif", "./..."], cwd=wt)
        rs = sh(["go", "test", "-vet=off", "-count=1", "./..."], cwd=wt)
        print("build:", rb.returncode, rb2.returncode, "existing suite with patch:", "PASS" if rs.returncode == 0 else "FAIL")
        if rs.returncode != 0 or rb.returncode != 0 or rb2.returncode != 0:
            print((rb.stdout + rb2.stdout + rs.stdout)[-2000:])
            return
        shutil.copy(demo_src, demo_dst)
        r2 = sh(cmd, cwd=wt)
        print("demo with patch:", "FAIL (as required)" if r2.returncode != 0 else "PASS (seed rejected)")
        if r2.returncode == 0:
            return
        out = os.path.join(VERIF, "seeded", sid)
        os.makedirs(out, exist_ok=True)
        shutil.copy(os.path.join(src, "patch.diff"), os.path.join(out, "patch.diff"))
        shutil.copy(demo_src, os.path.join(out, os.path.basename(demo_rel)))
        if os.path.exists(os.path.join(src, "README.md")):
            shutil.copy(os.path.join(src, "README.md"), os.path.join(out, "AGENT_README.md"))
        fails = [l for l in r2.stdout.split("\n") if "FAIL" in l or "Error" in l or "expected" in l][:6]
        meta = {
            "id": sid,
            "property": prop,
            "source": "independent sub-agent given only the property text and a scratch worktree",
            "needs": "",
            "demo": {"file": os.path.basename(demo_rel), "copy_to": dest, "command": ("GOARCH=%s " % demo_arch if demo_arch else "") + "go test -vet=off -count=1 " + " ".join(targs)},
            "confirmed": {
                "demo_passes_on_clean_tree": True,
                "existing_suite_passes_with_patch": True,
                "builds_with_and_without_verif_tag": True,
                "demo_fails_with_patch": True,
                "demo_failure_excerpt": fails,
            },
            "checks": [prop],
            "detected_by": {},
        }
        mp = os.path.join(out, "meta.json")
        if os.path.exists(mp):
            old = json.load(open(mp))
            meta["needs"] = old.get("needs", "")
            meta["checks"] = old.get("checks", meta["checks"])
            meta["detected_by"] = old.get("detected_by", {})
        json.dump(meta, open(mp, "w"), indent=1)
        ok = True
        print("imported to", out)
    finally:
        sh(["git", "-C", "/repo", "worktree", "remove", "--force", wt])
        shutil.rmtree(wt, ignore_errors=True)
        sh(["git", "-C", "/repo", "worktree", "prune"])
    sys.exit(0 if ok else 1)


if __name__ == "__main__":
    main()
