#!/usr/bin/env python3
"""Generate the briefs for one round of independent seeded changes.

usage: tools/seed_prompts.py <first-worktree-number>     (20 briefs, C01..C20, worktrees /tmp/seed/w<N>..w<N+19>)

Each brief contains only the property text (from properties.jsonl), the nicknames and touched
files of the changes already seeded for that property (so that the new one uses another
mechanism) and sandbox mechanics. Nothing about /verif's checks is disclosed.
"""
import glob
import json
import os
import re
import subprocess
import sys

VERIF = os.path.dirname(os.path.dirname(os.path.abspath(__file__)))
first = int(sys.argv[1])
props = [json.loads(l) for l in open(os.path.join(VERIF, "properties.jsonl"))]
os.makedirs("/tmp/seed/prompts", exist_ok=True)

TEMPLATE = open(os.path.join(VERIF, "tools", "seed_prompt.tmpl")).read()

for i, p in enumerate(props):
    n = first + i
    wt = "/tmp/seed/w%d" % n
    if not os.path.isdir(wt):
        subprocess.run(["git", "-C", "/repo", "worktree", "add", "--detach", wt, "HEAD"], check=True, stdout=subprocess.DEVNULL, stderr=subprocess.DEVNULL)
    nick, touched, funcs = [], set(), set()
    for d in sorted(glob.glob(os.path.join(VERIF, "seeded", "s*-%s-*" % p["id"].lower()))):
        nick.append('"%s"' % " ".join(os.path.basename(d).split("-")[2:]))
        for l in open(os.path.join(d, "patch.diff")):
            m = re.match(r"^\+\+\+ b/(\S+)", l)
            if m:
                touched.add(m.group(1))
            m = re.match(r"^@@ .* @@ func \(.*?\) (\w+)", l) or re.match(r"^@@ .* @@ func (\w+)", l)
            if m:
                funcs.add(m.group(1))
    text = TEMPLATE
    rep = {"{WT}": wt, "{ID}": p["id"], "{TITLE}": p["title"], "{STATEMENT}": p["statement"],
           "{HOLDS}": p["quantifier"]["text"], "{ANCHORS}": ", ".join(p["anchors"]["files"]),
           "{NICKS}": "; ".join(nick), "{TOUCHED}": ", ".join(sorted(touched)), "{FUNCS}": ", ".join(sorted(funcs))}
    for k, v in rep.items():
        text = text.replace(k, v)
    open("/tmp/seed/prompts/w%d.txt" % n, "w").write(text)
    print(n, p["id"], len(nick), "earlier seeds")
