#!/usr/bin/env python3
"""Re-run every seeded change against the check of its own property, in N parallel workers.
usage: tools/regress_primary.py <workers> [first-id-prefix ...]   (log: /tmp/regress_<k>.log)"""
import json, os, subprocess, sys
V = os.path.dirname(os.path.dirname(os.path.abspath(__file__)))
n = int(sys.argv[1])
ids = sorted(os.listdir(os.path.join(V, "seeded")))
if len(sys.argv) > 2:
    ids = [i for i in ids if any(i.startswith(p) for p in sys.argv[2:])]
procs = []
for k in range(n):
    mine = ids[k::n]
    script = "\n".join(
        "VERIF_MUT_ROOT=/tmp/vreg%d python3 %s/tools/mut.py --only-props %s --seeded %s" % (
            k, V, json.load(open(os.path.join(V, "seeded", i, "meta.json")))["property"], i) for i in mine)
    procs.append(subprocess.Popen(["bash", "-c", script], stdout=open("/tmp/regress_%d.log" % k, "w"), stderr=subprocess.STDOUT))
for p in procs:
    p.wait()
