#!/usr/bin/env python3
"""Mutation validation of the monitors.

usage: tools/mut.py [--tier quick|thorough] [--baseline] [--only-props C01,C02] <mutant-id>... | --all | --seeded <id>...

Each mutant is applied to a scratch git worktree of /repo under /tmp/vmut
(never to /repo itself); the checks named by the mutant are run with
VERIF_REPO pointing at the worktree; the worktree and build output are
removed afterwards. Results are appended to tools/mut_results.jsonl.
"""
import json
import os
import shutil
import subprocess
import sys
import time

VERIF = os.path.dirname(os.path.dirname(os.path.abspath(__file__)))
sys.path.insert(0, os.path.join(VERIF, "tools"))
from mutants import MUTANTS  # noqa: E402

GOENV = dict(GOFLAGS="-mod=mod", GOPROXY="off", GOSUMDB="off", GOTOOLCHAIN="local")
ROOT = os.environ.get("VERIF_MUT_ROOT", "/tmp/vmut")


def sh(cmd, **kw):
    return subprocess.run(cmd, stdout=subprocess.PIPE, stderr=subprocess.STDOUT, text=True, **kw)


def run_mutant(mid, spec, tier, baseline, only_props):
    wt = os.path.join(ROOT, "w-" + mid)
    bd = os.path.join(ROOT, "b-" + mid)
    ev = os.path.join(ROOT, "e-" + mid)
    sh(["git", "-C", "/repo", "worktree", "remove", "--force", wt])
    shutil.rmtree(wt, ignore_errors=True)
    # a seeded change written against an earlier tree (superseded by a later fix: commit) names its base
    r = sh(["git", "-C", "/repo", "worktree", "add", "--detach", wt, spec.get("base", "HEAD")])
    if r.returncode != 0:
        print(r.stdout)
        return None
    res = {"mutant": mid, "tier": tier, "note": spec.get("note", ""), "results": {}}
    try:
        if "patch" in spec:
            r = sh(["git", "-C", wt, "apply", spec["patch"]])
            if r.returncode != 0:
                print("patch failed:", r.stdout)
                res["error"] = "patch failed"
                return res
        for ed in spec.get("edits", []):
            path = os.path.join(wt, ed["file"])
            s = open(path).read()
            if s.count(ed["old"]) != 1:
                print("mutant %s: pattern occurs %d times in %s" % (mid, s.count(ed["old"]), ed["file"]))
                res["error"] = "pattern"
                return res
            open(path, "w").write(s.replace(ed["old"], ed["new"]))
        env = dict(os.environ)
        env.update(GOENV)
        if baseline:
            r = sh(["go", "test", "-vet=off", "-count=1", "./..."], cwd=wt, env=env)
            res["baseline_pass"] = r.returncode == 0
            if r.returncode != 0:
                print(r.stdout[-3000:])
        props = spec["props"]
        if only_props:
            props = [p for p in props if p in only_props]
        for pid in props:
            env2 = dict(env)
            env2.update({"VERIF_REPO": wt, "VERIF_BUILD": bd, "VERIF_EVIDENCE_DIR": ev, "VERIF_REPLAY_DIR": os.path.join(ev, "replays")})
            t0 = time.time()
            r = sh([os.path.join(VERIF, "check"), pid, tier], cwd=VERIF, env=env2)
            kinds = sorted(set(l.strip() for l in r.stdout.split("\n") if l.strip().startswith("kind=")))
            res["results"][pid] = {"exit": r.returncode, "secs": round(time.time() - t0, 1), "kinds": kinds[:6]}
            status = {0: "MISSED", 1: "CAUGHT", 2: "CHECK-ERROR"}.get(r.returncode, "?")
            print("%-28s %s %-11s %5.1fs %s" % (mid, pid, status, time.time() - t0, "; ".join(kinds)[:200]))
            if r.returncode == 2:
                print(r.stdout[-2500:])
    finally:
        sh(["git", "-C", "/repo", "worktree", "remove", "--force", wt])
        shutil.rmtree(wt, ignore_errors=True)
        shutil.rmtree(bd, ignore_errors=True)
        shutil.rmtree(ev, ignore_errors=True)
        sh(["git", "-C", "/repo", "worktree", "prune"])
    with open(os.path.join(VERIF, "tools", "mut_results.jsonl"), "a") as f:
        f.write(json.dumps(res) + "\n")
    return res


def main():
    args = sys.argv[1:]
    tier, baseline, only, ids, seeded = "quick", False, None, [], False
    i = 0
    while i < len(args):
        a = args[i]
        if a == "--tier":
            tier = args[i + 1]
            i += 1
        elif a == "--baseline":
            baseline = True
        elif a == "--only-props":
            only = args[i + 1].split(",")
            i += 1
        elif a == "--all":
            ids = sorted(MUTANTS)
        elif a == "--seeded":
            seeded = True
        else:
            ids.append(a)
        i += 1
    os.makedirs(ROOT, exist_ok=True)
    for mid in ids:
        if seeded:
            d = os.path.join(VERIF, "seeded", mid)
            meta = json.load(open(os.path.join(d, "meta.json")))
            spec = {"patch": os.path.join(d, "patch.diff"), "props": meta.get("checks") or [meta["property"]], "note": meta.get("needs", "")}
            if meta.get("base"):
                spec["base"] = meta["base"]
        else:
            spec = MUTANTS[mid]
        run_mutant(mid, spec, tier, baseline, only)


if __name__ == "__main__":
    main()
